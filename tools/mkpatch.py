#!/venv/bin/python
"""tools/mkpatch.py <out.diff> <file> <old> <new> [<file> <old> <new> ...]  - builds a patch against /repo's tree."""
import subprocess, sys, os, tempfile, shutil
out = sys.argv[1]
args = sys.argv[2:]
d = tempfile.mkdtemp(prefix="mkp-")
try:
    cur = {}
    for i in range(0, len(args), 3):
        f, old, new = args[i:i+3]
        src = cur.get(f) or open(os.path.join("/repo", f)).read()
        if src.count(old) < 1:
            sys.exit(f"pattern not found in {f}: {old[:60]!r}")
        cur[f] = src.replace(old, new, 1)
    for f, dst in cur.items():
        a = os.path.join(d, "a", f); b = os.path.join(d, "b", f)
        os.makedirs(os.path.dirname(a), exist_ok=True); os.makedirs(os.path.dirname(b), exist_ok=True)
        open(a, "w").write(open(os.path.join("/repo", f)).read()); open(b, "w").write(dst)
    r = subprocess.run(["diff", "-ruN", "a", "b"], cwd=d, capture_output=True, text=True)
    open(out, "w").write(r.stdout)
finally:
    shutil.rmtree(d)
