#!/venv/bin/python
"""Regenerates /verif/MANIFEST.json from the table below (run after registering a check)."""
import json
import os

ROOT = os.path.dirname(os.path.dirname(os.path.abspath(__file__)))
BASELINE = ("cd /repo && env -u PYCPARSER_VERIF /venv/bin/python -m pytest -ra -q -p no:cacheprovider "
            "--timeout=900 --continue-on-collection-errors")

# id -> (category, technique, level text, level note, design ref)
CHECKS = {
    "C06": ("exploration",
            "exception-discipline monitor at the parse() boundary + deterministic sys.monitoring step budget, "
            "driven by exhaustive short token sequences, token mutants and noise",
            "Every parse() outcome of the workload is classified by a monitor (FileAST / ParseError with a "
            "file:line:col prefix / anything else) and its work is bounded by a deterministic step counter; "
            "exhaustive for all token sequences up to the stated length in six contexts, for every character-level prefix of the "
            "small corpus programs and for a product of function-definition-shaped slot fillers; very long single tokens; "
            "statistical beyond.",
            "CPython 3.12 sys.monitoring; inputs nested <= 25 deep so RecursionError is never legitimate here.",
            "DESIGN.md section 2, C06"),
    "C01": ("exploration",
            "acceptance monitor at the parse() boundary over grammar-directed programs, gcc-accepted semantic programs and "
            "the corpus, with a sys.monitoring production-coverage monitor",
            "Stream 1: programs valid by construction of an independent grammar transcription (random translation units, all "
            "expression contexts, declarator sweeps, statement trees) under random layouts; stream 2: programs accepted by "
            "gcc -pedantic-errors under -std=c99/-std=c11; stream 3: zoo, preprocessed repository files, benchmark files; "
            "plus size-scaled families and long declarators at every input offset.",
            "Open findings K08/K09/K11/K12/K13 are exercised only by witness programs with neutralised twins.",
            "DESIGN.md section 2, C01"),
    "C08": ("translation_validation",
            "translation-validation monitor: gcc -S output (-O0, -O1) of the regenerated text must equal that of the original "
            "for every program gcc and pycparser accept; disagreements re-checked with clang LLVM IR",
            "Each semantic-generator program (C99 and C11 feature sets) and each corpus file gcc accepts is one validated "
            "translation under both generator configurations.",
            "gcc 12 as reference compiler; generator programs gcc rejects are oracle faults (dropped, counted).",
            "DESIGN.md section 2, C08"),
    "C02": ("exploration",
            "reference-model monitor: lock-step matcher between the AST returned by the real parser and the model "
            "tree each expression was rendered from (parentheses placed by an independent C99 6.5 level table)",
            "Bounded-exhaustive over all expression trees with <= 2 (quick) / <= 3 (thorough) operator nodes in three "
            "parenthesisations and 22 expression contexts, statistical for deeper random trees with every constant kind.",
            "My transcription of the C99 6.5 grammar levels; Constant.type strings as pycparser documents them.",
            "DESIGN.md section 2, C02"),
    "C03": ("exploration",
            "reference-model monitor: declarators composed inside-out from derivation lists, AST type chains read back "
            "as C types and compared (specifiers, qualifiers per level, storage, alignment, bit widths, initializers)",
            "Bounded-exhaustive over derivation sequences (length <= 3 quick / <= 4 thorough) x 14 contexts; random "
            "declarations covering all specifier multisets, struct/union/enum bodies, _Atomic(T), multi-declarators.",
            "Inside-out composition per C99 6.7.5; qualifiers of one level compared as sets.",
            "DESIGN.md section 2, C03"),
    "C04": ("exploration",
            "reference-model monitor: declaration histories with a model of C99 6.2.1 scoping; the reading of probe "
            "statements (declaration/cast/type operand vs expression) is observed in the AST; gcc validates the model",
            "Exhaustive over all legal event sequences of length <= 3 (quick; thorough adds a seed-selected half of length 4) "
            "over 25 event kinds x 2 names x 2 initial states (plus 13 parameter-list styles for short histories), random "
            "longer histories; four known scoping findings are attributed only when the trigger is present and the renamed twin reads correctly.",
            "ref.scope validated by gcc -std=c99 -fsyntax-only on a sample each run (programs valid only under the expected readings).",
            "DESIGN.md section 2, C04"),
    "C05": ("exploration",
            "reference-model monitor: expected statement nesting computed from the model by the rules the property "
            "states, matched in lock-step against FuncDef bodies",
            "Bounded-exhaustive over statement trees of depth <= 2 (thorough: + every unary construct around every "
            "depth-2 tree) on a reduced alphabet incl. pragmas/static assertions/declarations; random deeper trees.",
            "Shapes pinned by the test-suite are modelled (StaticAssert + EmptyStatement; pragma wrapping).",
            "DESIGN.md section 2, C05"),
    "C07": ("exploration",
            "metamorphic round-trip monitor: parse, generate (both configurations), re-parse, compare neutral forms "
            "slot by slot, regenerate and compare text",
            "Every accepted program of the model generators, the preprocessed repository corpus (incl. the three big "
            "benchmark files), the zoo and accepted token mutants is round-tripped under both generator settings.",
            "Neutral form covers every slot except coord.",
            "DESIGN.md section 2, C07"),
    "C09": ("exploration",
            "token-trace monitor on the standalone CLexer (every token() call, error/brace/type-lookup callbacks, "
            "lexer.filename) compared with the laid-out token sequence; progress + conservation rule on arbitrary text",
            "Exhaustive over all ordered vocabulary pairs x 3 layouts and all strings up to the stated length over the "
            "20-character alphabet; random 1-60 token sequences under six layouts incl. linemarkers and pragma lines.",
            "Line/column after an already reported swallowed newline are outside the property (order-only conservation there).",
            "DESIGN.md section 2, C09"),
    "C10": ("exploration",
            "reference-model monitor: hand-written recogniser of C99 literals vs the real lexer's token/error boundary "
            "and the Constant node the parser builds",
            "Exhaustive over all strings up to length 4 (quick) / 6 (thorough) over a 21-symbol literal alphabet; "
            "random grammar-derived literals with one- and two-edit neighbours; malformed classes must be reported at "
            "their first character.",
            "2-4 character multi-char constants and lenient escapes are pinned by the suite and part of the reference.",
            "DESIGN.md section 2, C10"),
    "C18": ("exploration",
            "acceptance monitor with an independent bracket matcher over the reference token stream: every structurally "
            "malformed mutant must raise ParseError",
            "Every single-bracket deletion/duplication/kind swap of each accepted program, non-token text and foreign "
            "directives at token boundaries and inside linemarker lines, and all bracket strings up to length 6 (quick) / "
            "8 (thorough) in four contexts.",
            "Balance decided by my matcher; lexically clean injections are skipped and counted.",
            "DESIGN.md section 2, C18"),
    "C11": ("exploration",
            "position monitor: the layout stage records the true (file, line, column) of every token; the lock-step "
            "matcher pairs AST nodes with model nodes whose token spans are known; ParseError locations checked against "
            "injected illegal characters and single-token mutants",
            "Every coordinate of every node of every generated program under whitespace/linemarker layouts must be a "
            "token start inside the paired construct (exact token for identifiers, constants, declared names, "
            "enumerators); illegal-character errors must name exactly the injected character.",
            "Abstract TypeDecl and FileAST legitimately have no coordinate; DeclList takes the 'for' token (pinned by the suite).",
            "DESIGN.md section 2, C11"),
    "C17": ("exploration",
            "metamorphic re-layout monitor: one token sequence under many layouts (whitespace, minimal spacing, "
            "linemarkers/#line between arbitrary tokens) and one model under three parenthesisations must give the "
            "same neutral form and the same regenerated text",
            "Token sequences from the model generators and the re-tokenised corpus x 5-10 layout variants each; "
            "parenthesisation variants come from the model renderer so the tree is the same by construction.",
            "#pragma lines stay on a line of their own; adjacency decided by the reference lexer.",
            "DESIGN.md section 2, C17"),
    "C12": ("exploration",
            "history monitor: every call on a used CParser/CLexer/CGenerator instance compared with a fresh instance "
            "(with-coordinates neutral form, exception type+message, object-identity sharing)",
            "All ordered pairs of a pool of residue-leaving inputs (open scopes, pending pragma tokens, changed file "
            "names, clashing typedef/object names) plus random long histories are replayed on one instance and "
            "compared call-by-call with fresh instances; exhaustive for pairs of the pool, statistical for longer histories.",
            "The fresh-instance result computed in the same process is the reference.",
            "DESIGN.md section 2, C12"),
    "C13": ("exploration",
            "deterministic cooperative schedulers (token granularity through the public lexer= parameter, call granularity "
            "through sys.monitoring PY_START) plus free-running threads, with a determinism oracle: every instance's result "
            "must equal its solo result from a fresh interpreter",
            "All interleavings of the token fetches of two short clashing parses (per program pair), random token-level "
            "and call-level schedules over parse+generate+visit of 2-4 longer programs, 8 free-running threads with a 1e-6 "
            "switch interval, and sequential alternation; distinct executed schedules are counted from the recorded step "
            "sequences.",
            "Solo results come from one fresh interpreter per program, so module-level caches cannot pollute the oracle.",
            "DESIGN.md section 2, C13"),
    "C16": ("exploration",
            "deterministic work-counter monitor (sys.monitoring: PY_START in every code object run on behalf of parse() plus "
            "backward JUMP events, i.e. loop iterations, inside pycparser) over scalable input families at doubling sizes; "
            "kernel CPU budget + re-run-alone confirmation for the lexer's regex families",
            "About 150 repetition/nesting/composition families and prefixes of the benchmark files are parsed at k = 8..512 "
            "(quick) / 8..1024 (thorough); growth ratio (two rules), per-character step budget and (for regexes) CPU seconds "
            "decide; the two open quadratic findings K46/K47 are attributed only when the input really nests and the series "
            "without the loop iterations of the two named functions is linear.",
            "RecursionError on deep nests is tolerated; regex thresholds have >= 25x margin.",
            "DESIGN.md section 2, C16"),
    "C14": ("exploration",
            "specification monitor: sentinel-value sweep of every node class against an independent reader of "
            "_c_ast.cfg (also on a module regenerated by _ast_gen.py), plus counting/single-hook visitors and show() "
            "on live ASTs",
            "Exhaustive over the 49 classes x absent-children subsets x sequence shapes; live ASTs from the corpus "
            "and accepted mutants are traversed under counting visitors whose expected counts come from __slots__ "
            "and the spec, not from children(); slot discipline (child fields hold Nodes, sequence fields lists of Nodes) "
            "and visitors that edit the list they are called from are monitored on the same trees.",
            "_c_ast.cfg is the specification.",
            "DESIGN.md section 2, C14"),
    "C15": ("exploration",
            "round-trip monitors: eval(repr()), pickle protocols 2..5 and deepcopy rebuilt trees compared by neutral "
            "form, generated text and object identity",
            "Every AST of the corpus, quoting/non-ASCII stress inputs, deep nests and accepted mutants is rebuilt by "
            "each mechanism and compared structurally (with coordinates for pickle/deepcopy), textually and for "
            "independence (mutating the copy must not move the original).",
            "CPython nesting limits bound the repr/eval leg to AST depth <= 150.",
            "DESIGN.md section 2, C15"),
    "C19": ("exploration",
            "API-boundary monitor on parse_file + sys.addaudithook on subprocess.Popen (exact cpp argv) + differential "
            "monitor against the hand-run cpp|CParser pipeline",
            "Exhaustive over every shipped header x 4 dialects x both cpp_args forms (thorough; quick samples the str "
            "form and the manual comparison on a rotating dialect), random header subsets/orders, each followed by a "
            "declaration and a sizeof for every typedef name of _fake_typedefs.h.",
            "System cpp (gcc 12) is the preprocessor.",
            "DESIGN.md section 2, C19"),
}

NOT_APPLICABLE = {}


def main():
    checks = []
    for cid in sorted(CHECKS):
        cat, tech, text, note, ref = CHECKS[cid]
        checks.append({
            "property_id": cid,
            "quick_cmd": f"./check {cid} quick",
            "thorough_cmd": f"./check {cid} thorough",
            "evidence_file": f"/verif/evidence/{cid}.json",
            "replay_cmd_template": "./check --replay {path}",
            "engine": "vf",
            "level_claimed": {"category": cat, "text": text, "design_ref": ref},
            "level_note": note,
            "technique": tech,
        })
    all_ids = [f"C{i:02d}" for i in range(1, 20)]
    na = []
    for cid in all_ids:
        if cid not in CHECKS:
            na.append({"property_id": cid,
                       "reason": NOT_APPLICABLE.get(cid, "check not registered yet: its monitor has not passed "
                                                    "the silent-on-unchanged-tree and deliberate-breakage gates "
                                                    "(DESIGN.md section 6a); runtime monitoring does apply")})
    man = {
        "version": 1,
        "setup_cmd": "./check setup",
        "hooks": {
            "guard": "PYCPARSER_VERIF",
            "enable": "none needed: all monitors attach from outside (public lexer= parameter, sys.monitoring, "
                      "sys.addaudithook); no source hooks were added to /repo",
            "baseline_off_cmd": BASELINE,
            "source_commits": [],
            "add_only": True,
        },
        "engines": [{"name": "vf", "path": "/verif/vf", "serves_properties": sorted(CHECKS),
                     "kind_free_text": "runtime monitors (exception discipline, token trace, step counter, "
                                       "reference-model and differential oracles, deterministic schedulers) "
                                       "driving the real pycparser code from /repo"}],
        "checks": checks,
        "not_applicable": na,
        "notes": "All checks rebuild nothing: pycparser is pure Python and is imported fresh from $VERIF_REPO "
                 "(default /repo) in every worker process. Exit codes: 0 held, 1 VIOLATION, 2 inconclusive.",
    }
    with open(os.path.join(ROOT, "MANIFEST.json"), "w") as f:
        json.dump(man, f, indent=1)
        f.write("\n")


if __name__ == "__main__":
    main()
