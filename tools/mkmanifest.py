#!/venv/bin/python
"""Regenerates /verif/MANIFEST.json from the table below (run after registering a check)."""
import json
import os

ROOT = os.path.dirname(os.path.dirname(os.path.abspath(__file__)))
BASELINE = ("cd /repo && env -u PYCPARSER_VERIF /venv/bin/python -m pytest -ra -q -p no:cacheprovider "
            "--timeout=900 --continue-on-collection-errors")

# id -> (category, technique, level text, level note, design ref)
CHECKS = {
    "C06": ("exploration",
            "exception-discipline monitor at the parse() boundary + deterministic sys.monitoring step budget, "
            "driven by exhaustive short token sequences, token mutants and noise",
            "Every parse() outcome of the workload is classified by a monitor (FileAST / ParseError with a "
            "file:line:col prefix / anything else) and its work is bounded by a deterministic step counter; "
            "exhaustive for all token sequences up to the stated length in six contexts, statistical beyond.",
            "CPython 3.12 sys.monitoring; inputs nested <= 25 deep so RecursionError is never legitimate here.",
            "DESIGN.md section 2, C06"),
}

NOT_APPLICABLE = {}


def main():
    checks = []
    for cid in sorted(CHECKS):
        cat, tech, text, note, ref = CHECKS[cid]
        checks.append({
            "property_id": cid,
            "quick_cmd": f"./check {cid} quick",
            "thorough_cmd": f"./check {cid} thorough",
            "evidence_file": f"/verif/evidence/{cid}.json",
            "replay_cmd_template": "./check --replay {path}",
            "engine": "vf",
            "level_claimed": {"category": cat, "text": text, "design_ref": ref},
            "level_note": note,
            "technique": tech,
        })
    all_ids = [f"C{i:02d}" for i in range(1, 20)]
    na = []
    for cid in all_ids:
        if cid not in CHECKS:
            na.append({"property_id": cid,
                       "reason": NOT_APPLICABLE.get(cid, "check not registered yet: its monitor has not passed "
                                                    "the silent-on-unchanged-tree and deliberate-breakage gates "
                                                    "(DESIGN.md section 6a); runtime monitoring does apply")})
    man = {
        "version": 1,
        "setup_cmd": "./check setup",
        "hooks": {
            "guard": "PYCPARSER_VERIF",
            "enable": "none needed: all monitors attach from outside (public lexer= parameter, sys.monitoring, "
                      "sys.addaudithook); no source hooks were added to /repo",
            "baseline_off_cmd": BASELINE,
            "source_commits": [],
            "add_only": True,
        },
        "engines": [{"name": "vf", "path": "/verif/vf", "serves_properties": sorted(CHECKS),
                     "kind_free_text": "runtime monitors (exception discipline, token trace, step counter, "
                                       "reference-model and differential oracles, deterministic schedulers) "
                                       "driving the real pycparser code from /repo"}],
        "checks": checks,
        "not_applicable": na,
        "notes": "All checks rebuild nothing: pycparser is pure Python and is imported fresh from $VERIF_REPO "
                 "(default /repo) in every worker process. Exit codes: 0 held, 1 VIOLATION, 2 inconclusive.",
    }
    with open(os.path.join(ROOT, "MANIFEST.json"), "w") as f:
        json.dump(man, f, indent=1)
        f.write("\n")


if __name__ == "__main__":
    main()
