#!/venv/bin/python
"""tools/seedcheck.py confirm <src_dir> <seed_id> <property>   - confirm an externally produced seed and store it
   tools/seedcheck.py run [seed_id ...] [--checks C01,C02|all] [--tier quick|thorough]  - run checks against stored seeds

A seed lives in /verif/seeded/<seed_id>/ {patch.diff, demo.py, notes.md, meta.json}.  Nothing is ever applied to /repo:
each run uses a scratch copy of /repo's tracked files (VERIF_REPO) which is removed afterwards."""
import json
import os
import shutil
import subprocess
import sys
import tempfile

ROOT = os.path.dirname(os.path.dirname(os.path.abspath(__file__)))
SEEDED = os.path.join(ROOT, "seeded")
PY = "/venv/bin/python"


def scratch_copy(patch):
    d = tempfile.mkdtemp(prefix="vfseed-")
    repo = os.path.join(d, "repo")
    os.makedirs(repo)
    files = subprocess.run(["git", "-C", "/repo", "ls-files", "-z"], capture_output=True, text=True).stdout.split("\0")
    for f in files:
        if not f:
            continue
        dst = os.path.join(repo, f)
        os.makedirs(os.path.dirname(dst), exist_ok=True)
        shutil.copy2(os.path.join("/repo", f), dst)
    subprocess.run(["git", "init", "-q", "."], cwd=repo)
    r = subprocess.run(["git", "apply", "--whitespace=nowarn", patch], cwd=repo, capture_output=True, text=True)
    if r.returncode != 0:
        r = subprocess.run(["git", "apply", "--whitespace=nowarn", "-3", patch], cwd=repo, capture_output=True, text=True)
    if r.returncode != 0:
        r2 = subprocess.run(["patch", "-p1", "-i", patch], cwd=repo, capture_output=True, text=True)
        if r2.returncode != 0:
            shutil.rmtree(d)
            raise RuntimeError("patch does not apply: " + r.stderr + r2.stdout)
    return d, repo


def confirm(src, seed_id, prop):
    patch = os.path.join(src, "patch.diff")
    demo = os.path.join(src, "demo.py")
    d, repo = scratch_copy(patch)
    try:
        t = subprocess.run([PY, "-m", "pytest", "-q", "-p", "no:cacheprovider", "tests"], cwd=repo, capture_output=True, text=True)
        tests_ok = t.returncode == 0
        tail = t.stdout.strip().splitlines()[-1] if t.stdout.strip() else ""
        bad = subprocess.run([PY, demo, repo], capture_output=True, text=True, timeout=600)
        good = subprocess.run([PY, demo, "/repo"], capture_output=True, text=True, timeout=600)
    finally:
        shutil.rmtree(d)
    ok = tests_ok and bad.returncode == 1 and good.returncode == 0
    print(f"{seed_id}: tests_ok={tests_ok} ({tail}) demo_on_seeded={bad.returncode} demo_on_repo={good.returncode} -> {'CONFIRMED' if ok else 'REJECTED'}")
    if not ok:
        print(bad.stdout[-500:], good.stdout[-500:], good.stderr[-500:])
        return False
    dst = os.path.join(SEEDED, seed_id)
    os.makedirs(dst, exist_ok=True)
    for f in ("patch.diff", "demo.py", "notes.md"):
        if os.path.exists(os.path.join(src, f)):
            shutil.copy2(os.path.join(src, f), os.path.join(dst, f))
    meta = {"seed": seed_id, "breaks_property": prop,
            "needs_to_manifest": _first_lines(os.path.join(src, "notes.md")),
            "confirmed": {"suite_passes_with_patch": tail, "demo_exit_with_patch": 1, "demo_exit_without_patch": 0,
                          "repo_head": subprocess.run(["git", "-C", "/repo", "rev-parse", "--short", "HEAD"], capture_output=True, text=True).stdout.strip(),
                          "demo_output_with_patch": bad.stdout.strip()[-600:]},
            "what_was_run": f"scratch copy of /repo + git apply patch.diff; {PY} -m pytest -q tests; {PY} demo.py <scratch> (exit 1); {PY} demo.py /repo (exit 0)",
            "caught_by": {}}
    with open(os.path.join(dst, "meta.json"), "w") as f:
        json.dump(meta, f, indent=1)
    return True


def _first_lines(path):
    try:
        with open(path) as f:
            txt = f.read()
    except OSError:
        return ""
    return " ".join(txt.split())[:900]


def run(seed_ids, checks, tier):
    for sid in seed_ids:
        dst = os.path.join(SEEDED, sid)
        with open(os.path.join(dst, "meta.json")) as f:
            meta = json.load(f)
        which = checks if checks else [meta["breaks_property"]]
        d, repo = scratch_copy(os.path.join(dst, "patch.diff"))
        try:
            for c in which:
                env = dict(os.environ, VERIF_REPO=repo)
                r = subprocess.run([os.path.join(ROOT, "check"), c, tier], capture_output=True, text=True, env=env, cwd=ROOT)
                nviol = sum(1 for ln in r.stdout.splitlines() if ln.startswith("VIOLATION"))
                kinds = sorted({ln.split("kind=")[1].split(" ")[0] for ln in r.stdout.splitlines() if ln.strip().startswith("kind=")})
                verdict = "caught" if r.returncode == 1 and nviol else ("inconclusive" if r.returncode == 2 else "missed")
                meta["caught_by"][f"{c}:{tier}"] = {"verdict": verdict, "kinds": kinds[:4]}
                print(f"{sid} {c} {tier}: {verdict} {kinds[:3]}")
        finally:
            shutil.rmtree(d)
        with open(os.path.join(dst, "meta.json")) as f:
            cur = json.load(f)          # merge: another run may have updated the file meanwhile
        cur.setdefault("caught_by", {}).update(meta["caught_by"])
        with open(os.path.join(dst, "meta.json"), "w") as f:
            json.dump(cur, f, indent=1)
    # evidence files were rewritten against scratch trees: they are regenerated by the next real run


def main():
    if sys.argv[1] == "confirm":
        sys.exit(0 if confirm(sys.argv[2], sys.argv[3], sys.argv[4]) else 1)
    args = sys.argv[2:]
    checks, tier, ids = None, "quick", []
    i = 0
    while i < len(args):
        if args[i] == "--checks":
            checks = [f"C{k:02d}" for k in range(1, 20)] if args[i + 1] == "all" else args[i + 1].split(",")
            i += 2
        elif args[i] == "--tier":
            tier = args[i + 1]
            i += 2
        else:
            ids.append(args[i])
            i += 1
    if not ids:
        ids = sorted(d for d in os.listdir(SEEDED) if os.path.isdir(os.path.join(SEEDED, d)))
    run(ids, checks, tier)


if __name__ == "__main__":
    main()
