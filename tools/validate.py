#!/opt/veriftools/pyvenv/bin/python
"""tools/validate.py - validate MANIFEST.json, every evidence/*.json and known_findings.json's shape against the schemas in /root/.vp."""
import glob
import json
import os
import sys

import jsonschema

ROOT = os.path.dirname(os.path.dirname(os.path.abspath(__file__)))
bad = 0
sch = json.load(open("/root/.vp/EVIDENCE.schema.json"))
for f in sorted(glob.glob(os.path.join(ROOT, "evidence", "*.json"))):
    try:
        jsonschema.validate(json.load(open(f)), sch)
    except Exception as e:  # noqa: BLE001
        bad += 1
        print("INVALID", f, str(e)[:300])
try:
    jsonschema.validate(json.load(open(os.path.join(ROOT, "MANIFEST.json"))), json.load(open("/root/.vp/MANIFEST.schema.json")))
except Exception as e:  # noqa: BLE001
    bad += 1
    print("INVALID MANIFEST", str(e)[:300])
props = [json.loads(l)["id"] for l in open(os.path.join(ROOT, "properties.jsonl"))]
man = json.load(open(os.path.join(ROOT, "MANIFEST.json")))
claimed = {c["property_id"] if "property_id" in c else c.get("id") for c in man.get("checks", man.get("properties", []))} if isinstance(man.get("checks", man.get("properties", [])), list) else set()
for k in json.load(open(os.path.join(ROOT, "known_findings.json")))["findings"]:
    if k["status"] not in ("open", "fixed") or not set(k["properties"]) <= set(props):
        bad += 1
        print("INVALID finding", k["id"])
    if k["status"] == "fixed" and not k.get("line", "").startswith("fixed: property="):
        bad += 1
        print("fixed entry without line", k["id"])
print("ok" if not bad else f"{bad} problems")
sys.exit(1 if bad else 0)
