#!/bin/sh
# tools/withpatch.sh <patch.diff|-e 'sed-expr' file> -- <command...>
# Runs a command with VERIF_REPO pointing at a scratch copy of /repo with the patch applied; removes the copy.
set -e
patch="$1"; shift
[ "$1" = "--" ] && shift
d=$(mktemp -d /tmp/vfmut-XXXXXX)
trap 'rm -rf "$d"' EXIT
mkdir -p "$d/repo"
(cd /repo && git ls-files -z | xargs -0 cp --parents -t "$d/repo")
(cd "$d/repo" && git init -q . 2>/dev/null && git apply --whitespace=nowarn "$patch") || { echo "PATCH FAILED"; exit 9; }
if [ -n "$RUN_TESTS" ]; then (cd "$d/repo" && /venv/bin/python -m pytest -q -p no:cacheprovider -x tests 2>&1 | tail -2); fi
VERIF_REPO="$d/repo" "$@"
