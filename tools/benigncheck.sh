#!/bin/sh
# tools/benigncheck.sh [tier]  - every check must stay silent (exit 0) on each property-preserving patch in benign/
tier=${1:-quick}
cd "$(dirname "$0")/.."
for b in ${BENIGN_GLOB:-benign/*.diff benign/done/*.diff}; do
  for c in 01 02 03 04 05 06 07 08 09 10 11 12 13 14 15 16 17 18 19; do
    out=$(tools/withpatch.sh "$PWD/$b" -- ./check C$c $tier 2>&1); rc=$?
    echo "$(basename $b) C$c rc=$rc $(echo "$out" | tail -1)"
  done
done
