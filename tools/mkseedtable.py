#!/venv/bin/python
"""Prints the markdown table 'which checks catch which seeded changes' from seeded/*/meta.json."""
import glob, json, os, re
ROOT = os.path.dirname(os.path.dirname(os.path.abspath(__file__)))
print("| seed | breaks | mechanism | caught by (tier) |")
print("|---|---|---|---|")
MECH = json.load(open(os.path.join(ROOT, "seeded", "MECHANISMS.json")))
for d in sorted(glob.glob(os.path.join(ROOT, "seeded", "*"))):
    if not os.path.isdir(d):
        continue
    m = json.load(open(os.path.join(d, "meta.json")))
    notes = MECH.get(m["seed"], "")
    p = os.path.join(d, "notes.md") if not notes else "/nonexistent"
    if os.path.exists(p):
        txt = open(p).read()
        txt = re.sub(r"[#*`]", "", txt)
        lines = [l.strip() for l in txt.splitlines() if l.strip()]
        # first descriptive line that is not a title
        cand = [l for l in lines[1:] if len(l) > 40]
        notes = (cand[0] if cand else (lines[0] if lines else ""))[:170]
    caught = []
    missed = []
    for k, v in sorted(m.get("caught_by", {}).items()):
        c, tier = k.split(":")
        (caught if v["verdict"] == "caught" else missed).append(f"{c} ({tier[0]})" if v["verdict"] == "caught" else c)
    print(f"| {m['seed']} | {m['breaks_property']} | {notes.replace('|', '/')} | {', '.join(caught) or '-'} |")
