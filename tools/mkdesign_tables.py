#!/venv/bin/python
"""tools/mkdesign_tables.py - fills the generated parts of DESIGN.md section 9 (between the HTML comment markers):
the seed table from seeded/*/meta.json + seeded/MECHANISMS.json, and the benign summary from benign/results/*.log."""
import glob
import json
import os
import re
import subprocess

ROOT = os.path.dirname(os.path.dirname(os.path.abspath(__file__)))


def seed_table():
    out = subprocess.run([os.path.join(ROOT, "tools", "mkseedtable.py")], capture_output=True, text=True).stdout
    return out.strip()


def benign_summary():
    rows = {}
    for f in sorted(glob.glob(os.path.join(ROOT, "benign", "results", "*.log"))):
        for ln in open(f, errors="replace"):
            m = re.match(r"(\S+\.diff) (C\d\d) rc=(\d+)", ln)
            if m and m.group(3) != "9":      # rc=9: the patch did not apply to that snapshot (ported later): not a result
                rows.setdefault(m.group(1), {})[m.group(2)] = int(m.group(3))   # later logs override earlier ones
    lines = ["| patch | checks run | exit 0 | other |", "|---|---|---|---|"]
    tot = ok = 0
    for p in sorted(rows):
        r = rows[p]
        bad = sorted(f"{c} (rc={v})" for c, v in r.items() if v != 0)
        tot += len(r)
        ok += sum(1 for v in r.values() if v == 0)
        lines.append(f"| {p} | {len(r)} | {sum(1 for v in r.values() if v == 0)} | {', '.join(bad) or '-'} |")
    lines.append(f"| **total** | {tot} | {ok} | {tot - ok} |")
    return "\n".join(lines)


def main():
    p = os.path.join(ROOT, "DESIGN.md")
    s = open(p).read()
    for a, b, body in (("<!-- SEED-TABLE-BEGIN -->", "<!-- SEED-TABLE-END -->", seed_table()),
                       ("<!-- BENIGN-BEGIN -->", "<!-- BENIGN-END -->", benign_summary())):
        i, j = s.index(a) + len(a), s.index(b)
        s = s[:i] + "\n" + body + "\n" + s[j:]
    open(p, "w").write(s)


if __name__ == "__main__":
    main()
