#!/bin/sh
# tools/benigncheck_sel.sh "<checks>" [tier] - like benigncheck.sh but only for the listed checks (e.g. "16 13 08 01")
checks="$1"; tier=${2:-quick}
cd "$(dirname "$0")/.."
for b in ${BENIGN_GLOB:-benign/*.diff benign/done/*.diff}; do
  for c in $checks; do
    out=$(tools/withpatch.sh "$PWD/$b" -- ./check C$c $tier 2>&1); rc=$?
    echo "$(basename $b) C$c rc=$rc $(echo "$out" | tail -1)"
  done
done
