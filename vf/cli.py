"""Command line: python -m vf.cli <ID> <quick|thorough> | --replay <path> | setup"""
import hashlib
import importlib
import json
import os
import shutil
import sys
import time

from . import runner, sut

ROOT = runner.ROOT
EVID = os.path.join(ROOT, "evidence")
REPLAYS = os.path.join(ROOT, "replays")
if os.path.realpath(os.environ.get("VERIF_REPO", "/repo")) != "/repo":
    # runs against scratch (deliberately broken) copies must never overwrite the evidence of /repo itself
    EVID = os.path.join(ROOT, ".work", "evidence-scratch")
    REPLAYS = os.path.join(ROOT, ".work", "replays-scratch")
KF_PATH = os.path.join(ROOT, "known_findings.json")
ALL = [f"C{i:02d}" for i in range(1, 20)]


def load_known():
    try:
        with open(KF_PATH) as f:
            return json.load(f)["findings"]
    except OSError:
        return []


def setup():
    ok = True
    for tool in ("gcc", "cpp", "clang"):
        p = shutil.which(tool)
        print(f"{tool}: {p}")
        ok = ok and (p is not None or tool == "clang")
    S = sut.load()
    print("pycparser under test:", S.path)
    print("python:", sys.version.split()[0], "sys.monitoring:", hasattr(sys, "monitoring"))
    os.makedirs(EVID, exist_ok=True)
    return 0 if ok and hasattr(sys, "monitoring") else 1


def _sha(obj):
    return hashlib.sha256(json.dumps(obj, sort_keys=True, default=str).encode()).hexdigest()[:16]


def run_check(check_id, tier):
    check_id = check_id.upper()
    mod = importlib.import_module(f"vf.checks.{check_id.lower()}")
    seed = int(os.environ.get("VERIF_SEED", "0") or 0)
    t0 = time.time()
    specs = mod.plan(tier, seed)
    for s in specs:
        s.setdefault("tier", tier)
        s.setdefault("seed", seed)
    results = runner.run_shards(check_id, specs, timeout_s=getattr(mod, "SHARD_TIMEOUT", {}).get(tier, 1200),
                                max_workers=getattr(mod, "MAX_WORKERS", None))
    inconclusive = []
    good = []
    for spec, res, note in results:
        if res is None:
            handled = False
            if hasattr(mod, "on_shard_failure"):
                extra = mod.on_shard_failure(spec, note)
                if extra is not None:
                    good.append(extra)
                    handled = True
            if not handled:
                inconclusive.append({"shard": spec.get("name", "?"), **(note or {})})
        else:
            good.append(res)
            for inc in res.get("inconclusive", []):
                inconclusive.append(inc)
    violations = [v for r in good for v in r.get("violations", [])]
    known = {k["id"]: k for k in load_known()}
    open_here = {k: v for k, v in known.items() if v.get("status") == "open" and check_id in v.get("properties", [])}
    kf_counts = {k: 0 for k in open_here}
    new = []
    for v in violations:
        k = v.get("kf")
        if k and k in open_here:
            kf_counts[k] += 1
        else:
            new.append(v)
    for r in good:
        for k, n in (r.get("kf_counts") or {}).items():
            if k in kf_counts:
                kf_counts[k] += n
    # evidence
    evaluations = sum(r.get("evaluations", 0) for r in good)
    hashes = set()
    distinct = 0
    for r in good:
        distinct += r.get("nontrivial_distinct", 0)
        hashes.update(r.get("hashes", []))
    distinct += len(hashes)
    samples = []
    for r in good:
        for s in r.get("samples", []):
            if len(samples) < 12:
                samples.append(s)
    coverage = {"evaluations": evaluations, "distinct_nontrivial": distinct,
                "rule": getattr(mod, "RULE", ""), "samples": samples}
    if hasattr(mod, "summarize"):
        coverage.update(mod.summarize(good, tier, seed) or {})
    coverage["known_finding_cases"] = kf_counts
    coverage["shards"] = len(specs)
    coverage["shards_failed"] = len(specs) - len([1 for _, r, _ in results if r is not None])
    coverage["tree_under_test"] = sut.describe()
    if inconclusive:
        coverage["inconclusive"] = inconclusive[:20]
    # a check whose deciding monitor saw nothing is inconclusive, never held
    if evaluations == 0 or distinct < 2:
        inconclusive.append({"why": "deciding monitor observed nothing", "evaluations": evaluations})
    # report
    for k, ent in sorted(open_here.items()):
        print(f"KNOWN-FINDING: property={check_id} {k} {ent['what']} (cases this run: {kf_counts[k]})")
    seen_sig = set()
    nviol = 0
    os.makedirs(os.path.join(REPLAYS, check_id), exist_ok=True)
    for v in new:
        sig = (v.get("kind"), v.get("sig"))
        nviol += 1
        if sig in seen_sig or len(seen_sig) >= 40:
            continue
        seen_sig.add(sig)
        rec = {"property": check_id, "tier": tier, "seed": seed, **v}
        path = os.path.join(REPLAYS, check_id, _sha(rec) + ".json")
        with open(path, "w") as f:
            json.dump(rec, f, indent=1, default=str)
        print(f"VIOLATION property={check_id} replay={path}")
        print(f"  kind={v.get('kind')} {json.dumps(v.get('detail'), default=str)[:600]}")
    ev = {"property_id": check_id, "tier": tier, "seed": seed,
          "level": getattr(mod, "LEVEL", "exploration"), "coverage": coverage,
          "assumptions": getattr(mod, "ASSUMPTIONS", []),
          "wall_s": round(time.time() - t0, 2), "violations": nviol}
    if ev["level"] == "translation_validation":
        coverage.setdefault("programs", evaluations)
        coverage.setdefault("disagreements_checked", nviol + sum(kf_counts.values()))
    os.makedirs(EVID, exist_ok=True)
    with open(os.path.join(EVID, f"{check_id}.json"), "w") as f:
        json.dump(ev, f, indent=1, default=str)
    print(f"{check_id} {tier}: evaluations={evaluations} distinct_nontrivial={distinct} "
          f"violations={nviol} known_finding_cases={sum(kf_counts.values())} wall={ev['wall_s']}s")
    if nviol:
        return 1
    if inconclusive:
        print(f"INCONCLUSIVE property={check_id} " + json.dumps(inconclusive[:3], default=str)[:1500])
        return 2
    return 0


def replay(path):
    with open(path) as f:
        rec = json.load(f)
    mod = importlib.import_module(f"vf.checks.{rec['property'].lower()}")
    vs = mod.replay(rec)
    if vs:
        print(f"VIOLATION property={rec['property']} replay={path}")
        for v in vs[:5]:
            print(json.dumps(v, indent=1, default=str)[:3000])
        return 1
    print("replay: no violation on the current tree")
    return 0


def main(argv):
    if not argv:
        print(__doc__)
        return 2
    if argv[0] == "setup":
        return setup()
    if argv[0] == "--replay":
        return replay(argv[1])
    if argv[0] == "check":
        argv = argv[1:]
    cid = argv[0]
    tier = argv[1] if len(argv) > 1 else os.environ.get("VERIF_TIER", "quick")
    if tier not in ("quick", "thorough"):
        tier = "quick"
    return run_check(cid, tier)


if __name__ == "__main__":
    sys.exit(main(sys.argv[1:]))
