"""C01 - every valid C99 / supported-C11 translation unit is accepted.

Acceptance monitor at the parse() boundary.  Stream 1: grammar-directed programs (every
text is a derivation of my transcription of the C99 grammar + the supported C11
productions under the typedef-name rule).  Stream 2: type-correct programs of the
semantic generator that gcc -std=c99|c11 -pedantic-errors accepts (gcc as an independent
acceptor; it also validates the grammar of stream 1 construct by construct).  Stream 3:
the repository's C corpus.  A production-coverage monitor (sys.monitoring) records which
parser functions the workload reached."""
import hashlib
import os
import random
import shutil
import subprocess
import tempfile

from .. import monitors, sut
from ..gen import cases, corpus, layout as lay, sem

ID = "C01"
LEVEL = "exploration"
RULE = ("stream 1: random translation units, expression batches in 22 contexts, declaration batches, statement batches and "
        "exhaustive derivation-sequence / statement-tree sweeps from the model generators, each under a random layout "
        "(whitespace, minimal spacing, linemarkers) and parenthesisation; stream 2: semantic-generator programs accepted "
        "by gcc -std=c99/-std=c11 -pedantic-errors -fsyntax-only; stream 3: zoo + preprocessed repository files + benchmark "
        "files; identifier-role x near-keyword sweep and trigger-free declaration histories of the C04 scope model (both with "
        "gcc-validated factors). Non-trivial: >= 10 tokens; distinct = distinct source texts.")
ASSUMPTIONS = ["stream 1 texts are valid by construction of the generator grammar; constructs that trigger the open findings "
               "K08/K09/K11/K12/K13 are not generated in the main stream and are exercised by a witness slice with neutralised twins",
               "gcc 12 -pedantic-errors is the independent acceptor of stream 2"]
SHARD_TIMEOUT = {"quick": 900, "thorough": 5400}
MAX_WORKERS = 10

KF_WITNESSES = [
    ("K08", "typedef int T; void f(void){ enum { T }; }", "typedef int T; void f(void){ enum { T_ }; }"),
    ("K08", "typedef int T; void f(void){ T: ; goto T; }", "typedef int T; void f(void){ T_: ; goto T_; }"),
    ("K09", "void *p = \"a\" L\"b\";", "void *p = L\"a\" L\"b\";"),
    ("K09", "void *p = L\"a\" \"b\";", "void *p = L\"a\" L\"b\";"),
    ("K11", "void f(void){ typedef char U; for (int U = 0; U < 1; U++) ; }", "void f(void){ typedef char U; for (int U_ = 0; U_ < 1; U_++) ; }"),
    ("K11", "void f(void){ for (int U = 0; U < 1; U++) ; typedef char U; U c; }", "void f(void){ for (int U_ = 0; U_ < 1; U_++) ; typedef char U; U c; }"),
    ("K12", "typedef int T; void f(void){ int T, y = T * 2; }", "typedef int T; void f(void){ int T; int y = T * 2; }"),
    ("K13", "typedef int T; int (*f(int T))(int) { return T * 2; }", "typedef int T; int (*f(int T_))(int) { return T_ * 2; }"),
    ("K13", "int f(a) int a; { return a; } typedef int a;", "int f(a_) int a_; { return a_; } typedef int a;"),
    ("K42", "struct layout { int size; int offsetof; }; int offsetof;", "struct layout { int size; int offsetof_; }; int offsetof_;"),
    ("K42", "int f(int offsetof) { return offsetof + 1; }", "int f(int offsetof_) { return offsetof_ + 1; }"),
]

# words that are ordinary identifiers in C99 and C11 although they look like keywords: C23 keywords, C++ keywords, library
# macro names (a preprocessed unit that did not include the header may use them freely), GNU keywords that -std=c99 disables,
# and near-misses of real keywords.  `offsetof` is missing on purpose: pycparser reserves it (open finding K42).
NEAR_KEYWORDS = ("alignas alignof bool constexpr false nullptr static_assert thread_local true typeof typeof_unqual "
                 "class new delete this template namespace try catch throw public private virtual operator friend using "
                 "mutable explicit export typename and or not xor bitand bitor compl and_eq or_eq not_eq xor_eq "
                 "noreturn complex imaginary assert va_arg va_list va_start NULL size_t wchar_t ptrdiff_t asm fortran "
                 "Bool Atomic Pragma pragma line define defined include error generic Generic atomic Static_assert "
                 "int8 uint long_ longlong Int INT Char sizeof_ Sizeof typedef_ Typedef struct_ Struct inline_ Restrict "
                 "restrict_ auto_ Auto register_ unsigned_ Unsigned signed_ Signed enum_ Enum union_ Union if_ If else_ "
                 "while_ do_ Do for_ For goto_ Goto return_ Return break_ switch_ case_ Case default_ Default continue_ "
                 "u8 u U L R LR u8R x e E f F l ul UL ll LL p P b B i j I J").split()

# one placeholder N; every template is valid C99 for any ordinary identifier N (validated with gcc for a neutral name)
NAME_TEMPLATES = [
    "int N;",
    "int N = 1; int g(void) { return N + 1; }",
    "void g(int N) { N++; }",
    "int N(void) { return 0; }",
    "int N(int a); int h(void) { return N(1); }",
    "struct s { int size; int N; }; int g(struct s *p) { return p->N + (*p).N; }",
    "struct N { int a; }; struct N v;",
    "union N { int a; char c; }; union N w;",
    "enum N { A1, B1 }; enum N e;",
    "enum e { N, Z9 }; int v = N;",
    "void g(void) { N: ; goto N; }",
    "typedef int N; N v; N f(N a) { return (N)a; }",
    "void g(void) { typedef char N; N c = 0; (void)sizeof(N); (void)c; }",
    "int g(a, N) int a; int N; { return a + N; }",
    "int g(void) { int N[3] = {0}; return N[0]; }",
    "struct s { int N : 3; };",
    "struct s { struct { int N; } in; } v = { .in = { .N = 1 } };",
    "int N(void) { typedef int N; N v = 0; return v; }",
    "int N(void) { int N = 0; return N; }",
    "int N(void) { N: return 0; }",
    "int N(void) { struct N { int a; } v = {0}; return v.a; }",
    "int N(void) { enum { N_e = 1 }; { typedef long N; N q = N_e; return (int)q; } }",
    "void g(void) { struct N *p = 0; (void)p; }",
    "typedef struct N N; struct N { N *next; };",
    "int g(void) { for (int N = 0; N < 3; N++) ; return 0; }",
    "int g(int (*N)(int)) { return N(1); }",
    "int N; int g(void) { return (int)sizeof N + (int)sizeof(N); }",
    "int N; int *g(void) { return &N; }",
    "int N; int g(int a) { return (N) + a - (N) * a + (N ? N : -N); }",
    "int N[2]; int g(void) { return N[0] + *N; }",
    "struct t { int a; } N; int g(void) { return N.a + (&N)->a; }",
    "int g(int, int N, char *N2[]);",
    "int N(int N1, int N2) { return N1 + N2; } int h(void) { return N(1, 2); }",
    "typedef int N; void g(void) { N N1 = 1; { int N = N1; (void)N; } }",
    "typedef int N; struct s { N N; }; int g(struct s *p) { return p->N; }",
    "void g(void) { int N; { typedef int N; N v = 0; (void)v; } N = 1; (void)N; }",
    "typedef int N; int g(N); int g(N x) { return x; }",
    "extern int N; static int h(void) { extern int N; return N; }",
    "typedef int N; int f(int (*N)(int)) { return N(1); }",
    "typedef int N; void f(int (*N), int (*const N2)(N), int ((*N1)));",
    "typedef int N; void f(int *(N), int (N), int (*(N)));",
    "typedef struct N N; void add(N *N); struct tree { N *root; };",
    "typedef unsigned long N; void *grab(int N); int h() { N n2 = 4; return (int)n2; }",
]


def plan(tier, seed):
    specs = []
    n = 10
    ngen = 350 if tier == "quick" else 6000
    for i in range(n):
        specs.append({"name": f"gram-{i}", "mode": "gram", "n": ngen, "rseed": seed * 7919 + i})
    nsem = 10 if tier == "quick" else 500
    for i in range(4):
        specs.append({"name": f"sem-{i}", "mode": "sem", "n": nsem, "rseed": seed * 1000 + 500 + i})
    specs.append({"name": "corpus", "mode": "corpus"})
    specs.append({"name": "kf", "mode": "kf"})
    for i in range(2):
        specs.append({"name": f"names-{i}", "mode": "names", "shard": i, "nshards": 2})
    for i in range(2):
        specs.append({"name": f"scope-{i}", "mode": "scope", "shard": i, "nshards": 2, "n": 1500 if tier == "quick" else 30000,
                      "rseed": seed * 53 + i})
    for i in range(4):
        specs.append({"name": f"scaled-{i}", "mode": "scaled", "shard": i, "nshards": 4, "kmax": 150 if tier == "quick" else 600,
                      "pads": 330 if tier == "quick" else 1100})
    return specs


def gen_recipes(rnd, n):
    out = []
    for i in range(n):
        r = rnd.random()
        sd = rnd.randrange(1 << 30)
        style = rnd.choice(lay.STYLES)
        render = rnd.choice(["min", "rand", "full"])
        if r < 0.45:
            out.append({"k": "tu", "seed": sd, "style": style, "render": render})
        elif r < 0.62:
            out.append({"k": "rexprs", "seed": sd, "count": 15, "depth": rnd.choice([2, 3, 4, 6]), "style": style, "render": render,
                        "ctx": rnd.choice(list(cases.EXPR_CONTEXTS))})
        elif r < 0.75:
            out.append({"k": "rdecls", "seed": sd, "count": 8, "style": style, "render": render})
        elif r < 0.88:
            out.append({"k": "rstmts", "seed": sd, "count": 3, "depth": rnd.choice([2, 3, 5]), "style": style, "render": render})
        elif r < 0.94:
            seqs = [[rnd.randrange(16) for _ in range(rnd.randrange(0, 6))] for _ in range(20)]
            ctx = rnd.choice(cases.DECL_CONTEXTS + cases.TN_CONTEXTS)
            if ctx != "param":
                seqs = [[x % 8 for x in s] for s in seqs]
            out.append({"k": "derivs", "ctx": ctx, "seqs": seqs, "seed": sd, "style": style})
        else:
            n2 = len(cases.stmt_list(2))
            out.append({"k": "stmts", "depth": 2, "start": rnd.randrange(0, n2 - 60), "count": 60, "seed": sd, "style": style})
    return out


def accept(text, fname, origin, counters):
    S = sut.load()
    try:
        S.CParser().parse(text, fname)
        counters["accepted"] += 1
        return None
    except RecursionError:
        return None
    except Exception as e:  # noqa: BLE001
        return {"kind": "valid-program-rejected", "sig": type(e).__name__ + ":" + str(e).split(": ", 1)[-1][:30],
                "case": {"text": text, "filename": fname, "origin": origin},
                "detail": {"error": f"{type(e).__name__}: {e}", "around": _around(text, str(e))}}


def _inst(template, word):
    import re
    # helper identifiers of the templates get a prefix so that no word of the pool collides with them
    template = re.sub(r"\b([aghsvwecpqxft]|in|size|next)\b", r"k_\1", template)
    return re.sub(r"\bN(?=\b|_e\b|1\b|2\b)", word, template)


def _around(text, msg):
    import re
    m = re.search(r":(\d+):(\d+):", msg)
    if not m:
        return text[:300]
    ln, col = int(m.group(1)), int(m.group(2))
    lines = text.split("\n")
    if 1 <= ln <= len(lines):
        line = lines[ln - 1]
        return line[max(0, col - 80):col + 40]
    return text[:300]


def run_shard(spec):
    res = {"evaluations": 0, "nontrivial_distinct": 0, "hashes": [], "violations": [], "samples": [], "kf_counts": {},
           "counters": {"accepted": 0, "gcc_accepted": 0, "gcc_rejected_oracle_faults": 0, "by_kind": {}, "parser_functions": {}}}
    cnt = res["counters"]
    hs = set()
    steps = monitors.StepMonitor()
    steps.start(coverage=True)

    def one(text, fname, origin, kind):
        v = accept(text, fname, origin, cnt)
        res["evaluations"] += 1
        cnt["by_kind"][kind] = cnt["by_kind"].get(kind, 0) + 1
        hs.add(int.from_bytes(hashlib.blake2b(text.encode("utf-8", "replace"), digest_size=7).digest(), "big"))
        if v is not None and len(res["violations"]) < 40:
            res["violations"].append(v)
        return v

    try:
        if spec["mode"] == "gram":
            rnd = random.Random(spec["rseed"])
            for r in gen_recipes(rnd, spec["n"]):
                c = cases.build(r)
                one(c.text, "g.c", {"recipe": r}, r["k"])
                if len(res["samples"]) < 1:
                    res["samples"].append({"recipe": {k: v for k, v in r.items() if k != "seqs"}, "text": c.text[:240]})
        elif spec["mode"] == "sem":
            work = tempfile.mkdtemp(prefix="vf-c01-")
            try:
                for i in range(spec["n"]):
                    c11 = i % 2 == 1
                    text, std = sem.generate(spec["rseed"] * 100 + i, c11=c11, nfun=6, ndecl=6)
                    fn = os.path.join(work, "p.c")
                    with open(fn, "w") as f:
                        f.write(text)
                    g = subprocess.run(["gcc", "-std=" + std, "-pedantic-errors", "-fsyntax-only", "-w", fn], capture_output=True, text=True)
                    if g.returncode != 0:
                        cnt["gcc_rejected_oracle_faults"] += 1
                        continue
                    if "__" in text:
                        continue
                    cnt["gcc_accepted"] += 1
                    one(text, "sem.c", {"sem_seed": spec["rseed"] * 100 + i, "std": std}, "sem-" + std)
                    if len(res["samples"]) < 1:
                        res["samples"].append({"gcc_accepted": std, "text": text[-300:]})
            finally:
                shutil.rmtree(work, ignore_errors=True)
        elif spec["mode"] == "corpus":
            for name, text in corpus.zoo() + corpus.repo_files() + corpus.big_files():
                one(text, name, {"file": name}, "corpus")
        elif spec["mode"] == "scope":
            # declaration histories of the C04 scope model (typedef / object / tag / label / parameter / for-init /
            # block events over clashing names): every history without a known-finding trigger is a valid program
            import itertools
            from . import c04
            alphabet = [(e, n) for e in c04.BLOCK_EVENTS for n in (c04.NAMES if e not in c04.NEUTRAL_EVENTS else ["-"])]
            rnd = random.Random(spec["rseed"])

            def hist(seq, u_kind, param=None, pstyle=0):
                P = c04.build_program(u_kind, seq, param, False, False, pstyle=pstyle)
                if P is None or P.triggers:
                    return
                one("\n".join(P.lines) + "\n", "scope.c", {"scope_history": [list(x) for x in seq], "u_kind": u_kind, "param": param,
                                                            "pstyle": pstyle}, "scope")
            k = 0
            for L in (1, 2):
                for seq in itertools.product(alphabet, repeat=L):
                    k += 1
                    if k % spec["nshards"] == spec["shard"]:
                        hist(list(seq), "typedef" if k % 4 < 2 else "obj")
            # every history of three events that starts with a loop whose body the parser has to look past
            for first in [a for a in alphabet if a[0] in ("for_if", "forif", "for", "ifnoelse")]:
                for rest in itertools.product(alphabet, repeat=2):
                    k += 1
                    if k % spec["nshards"] == spec["shard"]:
                        hist([first] + list(rest), "obj" if k % 3 else "typedef")
            for i in range(spec["n"]):
                seq = []
                opened = 0
                for _ in range(rnd.randrange(3, 9)):
                    e, nm = rnd.choice(alphabet)
                    if e == "close" and not opened:
                        continue
                    opened += (e == "open") - (e == "close")
                    seq.append((e, nm))
                param = rnd.choice(c04.NAMES) if rnd.random() < 0.3 else None
                hist(seq, rnd.choice(["typedef", "obj"]), param, rnd.randrange(len(c04.PSTYLES)) if param else 0)
        elif spec["mode"] == "names":
            # identifier-role sweep: (template valid for an ordinary identifier) x (word that is an ordinary identifier in
            # C99/C11).  gcc validates each factor separately: the template with a neutral name, and `int <word>;`
            work = tempfile.mkdtemp(prefix="vf-c01-")
            try:
                def gcc_ok(text):
                    fn = os.path.join(work, "n.c")
                    with open(fn, "w") as f:
                        f.write(text + "\n")
                    return all(subprocess.run(["gcc", "-std=" + std, "-pedantic-errors", "-fsyntax-only", "-w", fn],
                                              capture_output=True).returncode == 0 for std in ("c99", "c11"))
                temps = []
                for t in NAME_TEMPLATES:
                    if gcc_ok(_inst(t, "zq_9")):
                        temps.append(t)
                        cnt["gcc_accepted"] += 1
                    else:
                        cnt["gcc_rejected_oracle_faults"] += 1
                words = NEAR_KEYWORDS[spec["shard"]::spec["nshards"]]
                for w in words:
                    if not gcc_ok(f"int {w}; void use_{w}(int {w});"):
                        cnt["gcc_rejected_oracle_faults"] += 1
                        continue
                    cnt["gcc_accepted"] += 1
                    for ti, t in enumerate(temps):
                        one(_inst(t, w), "names.c", {"template": ti, "word": w}, "names")
                if len(res["samples"]) < 1:
                    res["samples"].append({"words": len(words), "templates": len(temps), "text": _inst(NAME_TEMPLATES[17], words[0])})
            finally:
                shutil.rmtree(work, ignore_errors=True)
        elif spec["mode"] == "scaled":
            # size-scaled valid programs (the families of C16 are all valid C) and long declarators at every
            # alignment relative to the start of the input: acceptance must not depend on size or position
            from . import c16
            names = sorted(n for n in c16.FAMILIES if n != "nest-stmt-expr")  # ({...}) is a GNU extension, not ISO C
            ks = [1, 2, 3, 5, 8, 13, 21, 34, 55, 89, 144, 233, 377, 610]
            for name in names[spec["shard"]::spec["nshards"]]:
                for k in ks:
                    if k > spec["kmax"]:
                        break
                    one(c16.FAMILIES[name](k), "scaled.c", {"family": name, "k": k}, "scaled")
            longs = [
                "struct ctx; int (*select_handler(const struct ctx *c, unsigned int flags, int (*cmp)(const void *, const void *), "
                "void *(*alloc)(unsigned long), void (*release)(void *), int (*visit)(struct ctx *, const char *, unsigned long), "
                "const char *name, unsigned long name_len, const unsigned char table[static 16], int depth, ...))(struct ctx *, int); int after;",
                "int (*(*fpp(" + ", ".join(f"int a{i}" for i in range(40)) + "))(int))[3]; int after2;",
                "typedef int T; T (*const (*tab[4])(" + ", ".join(f"T (*cb{i})(T, T *)" for i in range(25)) + "))(void); T z;",
                "void g(int (*(" * 1 + "*deep" + ")(" + ", ".join(f"struct S{i} *p{i}" for i in range(45)) + "))(void));",
                "int x = ((int (*)(" + ", ".join("int" for _ in range(80)) + "))0)(" + ", ".join("1" for _ in range(80)) + ");",
                "struct L { " + " ".join(f"int (*m{i})(int, char *);" for i in range(30)) + " } l, (*lp)(struct L (*)(" + ", ".join("struct L *" for _ in range(70)) + "));",
            ]
            for p in range(spec["shard"], spec["pads"], spec["nshards"]):
                pad = "".join(f"int pad_{i};\n" for i in range(p))
                one(pad + longs[p % len(longs)], "long.c", {"pads": p, "long_declarator": p % len(longs)}, "long-declarator")
        else:
            S = sut.load()
            for kf, wit, twin in KF_WITNESSES:
                v = accept(wit, "kf.c", {"kf_witness": kf}, cnt)
                t = accept(twin, "kf.c", {"kf_twin": kf}, cnt)
                res["evaluations"] += 2
                hs.add(hash(wit) & ((1 << 56) - 1))
                hs.add(hash(twin) & ((1 << 56) - 1))
                if t is not None:
                    res["violations"].append(t)     # the neutralised twin must be accepted
                if v is not None:
                    v["kf"] = kf
                    res["violations"].append(v)
    finally:
        steps.stop()
    cnt["parser_functions"] = {k: v for k, v in (steps.funcs or {}).items() if k.startswith("CParser._parse") or k.startswith("CLexer")}
    res["hashes"] = sorted(hs)
    return res


def summarize(results, tier, seed):
    tot = {"accepted": 0, "gcc_accepted": 0, "gcc_rejected_oracle_faults": 0}
    kinds = {}
    funcs = {}
    for r in results:
        c = r.get("counters", {})
        for k in tot:
            tot[k] += c.get(k, 0)
        for k, v in c.get("by_kind", {}).items():
            kinds[k] = kinds.get(k, 0) + v
        for k, v in c.get("parser_functions", {}).items():
            funcs[k] = funcs.get(k, 0) + v
    S = sut.load()
    defined = sorted(n for n in dir(S.CParser) if n.startswith("_parse"))
    reached = sorted(k.split(".", 1)[1] for k in funcs if k.startswith("CParser._parse"))
    return {"monitors": {"acceptance": tot, "programs_by_stream": kinds,
                         "production_coverage": {"parser_functions_defined": len(defined), "reached": len(set(reached) & set(defined)),
                                                 "not_reached": sorted(set(defined) - set(reached))}},
            "traces_validated_against_impl": tot["gcc_accepted"], "oracle_disagreements": tot["gcc_rejected_oracle_faults"]}


def replay(rec):
    c = rec["case"]
    cnt = {"accepted": 0}
    v = accept(c["text"], c.get("filename", "r.c"), c.get("origin"), cnt)
    return [v] if v else []
