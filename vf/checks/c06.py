"""C06 - parse() either returns a FileAST or raises ParseError, nothing else.

Monitors: exception-discipline monitor at the parse() boundary, location-prefix
monitor on ParseError messages, deterministic step budget (bounded work)."""
import hashlib
import random

from .. import monitors, sut
from ..gen import corpus, mutate

ID = "C06"
LEVEL = "exploration"
RULE = ("exhaustive token sequences (every sequence of <= L symbols of a 45-symbol alphabet, L=3 quick / 4 thorough; of a "
        "20-symbol type-name alphabet, L=4 quick / 5 thorough; of 5 symbols over a 16-symbol alphabet on thorough) inserted in 6 "
        "contexts; every string of <= 3 (quick) / <= 4 (thorough) characters over the 21-character literal alphabet in 3 "
        "contexts; random token-level mutants of accepted programs (corpus, zoo and model-generated translation units); raw "
        "character noise; odd file names; single tokens / one-character runs of 4299..10000 (thorough: 100..300000) characters "
        "(digits, identifiers, hex, floats, quoted strings, blanks) in 30 positions incl. #line, linemarker flags, #pragma, array "
        "bounds, bit-field widths, labels; every character-level prefix of the zoo / extras programs; the product of 9 specifier x 16 "
        "declarator x 18 declaration-list x 8 body forms of function-definition-shaped inputs. A case is non-trivial when its text has >= 2 tokens; "
        "distinct = distinct input texts (exhaustive part distinct by construction, random part by hash).")
ASSUMPTIONS = ["CPython 3.12 sys.monitoring PY_START events are deterministic for a given input",
               "nesting depth of generated inputs <= 25, so RecursionError is never legitimate here",
               "step budget 5000 + 500*tokens + 4*characters (measured <= 55 steps per token on every linear family; a flag of 300000 "
               "digits in a linemarker costs one helper call per character)"]
SHARD_TIMEOUT = {"quick": 600, "thorough": 3000}

ALPHA45 = ["int", "T", "struct", "enum", "const", "_Atomic", "static", "typedef", "inline", "_Alignas",
           "_Static_assert", "sizeof", "if", "else", "for", "do", "switch", "case", "default", "return",
           "goto", "break", "(", ")", "[", "]", "{", "}", ";", ",", ":", "=", "*", "+", "++", ".", "->",
           "?", "...", "1", "1.5", "'a'", '"s"', 'L"s"', "x"]
ALPHA16 = ["int", "T", "struct", "x", "(", ")", "[", "]", "{", "}", ";", ",", "*", "=", "1", ":"]
# type-name oriented alphabet (atomic specifiers, abstract declarators, bit-fields)
ALPHA18 = ["_Atomic", "(", ")", "int", "[", "]", "1", ";", "x", "*", "struct", "{", "}", "T", ",", "const", ":", "=", "_Alignas", "sizeof"]
LIT_ALPHA = "0178 9afxXuUlL.ep+-'\"\\".replace(" ", "")
CONTEXTS = [
    ("empty", "", ""),
    ("typedef", "typedef int T; ", ""),
    ("body", "typedef int T; void f(void) { ", " }"),
    ("struct", "typedef int T; struct S { ", " };"),
    ("init", "typedef int T; int a[] = { ", " };"),
    ("params", "typedef int T; void g(", ");"),
]
FILENAMES = ["f.c", "dir/a b.c", "c:\\x\\y.c", "a:1:2.c", "%s%d{}.c", "", "é.c"]


def plan(tier, seed):
    specs = []
    nsh = 16
    maxlen = 3 if tier == "quick" else 4
    for i in range(nsh):
        specs.append({"name": f"seq45-{i}", "mode": "seq", "alpha": "45", "maxlen": maxlen, "shard": i, "nshards": nsh})
    for i in range(nsh):
        specs.append({"name": f"seq18-{i}", "mode": "seq", "alpha": "18", "maxlen": 4 if tier == "quick" else 5, "shard": i, "nshards": nsh})
    for i in range(4):
        specs.append({"name": f"lit-{i}", "mode": "lit", "maxlen": 3 if tier == "quick" else 4, "shard": i, "nshards": 4})
    if tier == "thorough":
        for i in range(8):
            specs.append({"name": f"seq16-{i}", "mode": "seq", "alpha": "16", "maxlen": 5, "minlen": 5, "shard": i, "nshards": 8})
    nmut = 2500 if tier == "quick" else 60000
    nnoise = 1500 if tier == "quick" else 30000
    for i in range(12):
        specs.append({"name": f"mut-{i}", "mode": "mut", "n": nmut, "rseed": seed * 1000 + i})
    for i in range(4):
        specs.append({"name": f"noise-{i}", "mode": "noise", "n": nnoise, "rseed": seed * 1000 + 100 + i})
    lens = [4299, 4300, 4301, 10000] if tier == "quick" else [100, 1000, 4299, 4300, 4301, 5000, 9999, 10000, 70000, 300000]
    for i in range(2):
        specs.append({"name": f"long-{i}", "mode": "long", "lens": lens, "shard": i, "nshards": 2})
    for i in range(4):
        specs.append({"name": f"prefix-{i}", "mode": "prefix", "shard": i, "nshards": 4, "maxlen": 500 if tier == "quick" else 4000})
    specs.append({"name": "fdef", "mode": "fdef"})
    return specs


# function-definition-shaped inputs: <specifiers> <declarator> <old-style declaration list> <body>, every slot also with
# forms that do not fit the others (a declaration list after a non-function declarator, undeclared / extra / duplicate
# K&R names, prototype declarators with a declaration list, ...)
FDEF_SPECS = ["int", "", "static", "typedef int", "T", "struct s", "void", "_Noreturn void", "int *"]
FDEF_DTORS = ["x", "v[3]", "f()", "f(a)", "f(a, b)", "f(int a, ...)", "(*f)(a)", "f(a)(b)", "*f(a, b)", "f(void)", "f(a, a)", "(f)(a)",
              "f(a, ...)", "f(T)", "x : 3", "(*f(a))(int)"]
FDEF_LISTS = ["", "int a;", "int y;", "int a, b;", "int b; char a;", "int a = 1;", "int;", "struct s { int z; } a;", "typedef int a;", "a;",
              "int a; int a;", "register a;", "int a[]; int (*b)();", "T a;", "int a,;", "int a int b;", "int (a);", "int a; ;"]
FDEF_BODIES = ["{ }", "{ return a; }", ";", "", "{", "{ } }", "= 1;", "{ int a; }"]


# very long single tokens (and runs of one character) in every place where the lexer or parser converts, compares or
# re-scans token text: CPython refuses int() of more than 4300 digits, regexes meet long runs, ...
LONG_RUNS = [lambda n: "1" * n, lambda n: "9" * n, lambda n: "0" * n, lambda n: "a" * n, lambda n: "0x" + "f" * n,
             lambda n: "0b" + "1" * n, lambda n: "1." + "0" * n, lambda n: "1e" + "9" * n, lambda n: "0" + "7" * n + "8",
             lambda n: "'" + "a" * n + "'", lambda n: '"' + "a" * n + '"', lambda n: "L\"" + "\\n" * n + '"',
             lambda n: "1" * n + "u", lambda n: "1" * n + "LL", lambda n: "_" * n, lambda n: " " * n + "1", lambda n: "\t" * n + "1"]
LONG_CONTEXTS = ["#line X\nint x;\n", "# X \"f.c\"\nint x;\n", "#line 1 \"X\"\nint x;\n", "# 1 \"f.c\" X\nint x;\n", "# 1 \"f.c\" 1 X\nint x;\n",
                 "#lineX\nint x;\n", "#X\nint x;\n", "int x = X;", "int a[X];", "struct s { int m : X; };", "enum e { A = X };",
                 "#pragma X\nint x;\n", "#pragmaX\nint x;\n", "void f(void){ switch (x) { case X: ; } }", "int X;", "X x;",
                 "void f(void) { X: ; goto X; }", "_Static_assert(X, \"m\");", "_Static_assert(1, X);", "_Alignas(X) int x;",
                 "char *s = X;", "_Pragma(X) int x;", "int x = sizeof(X);", "int x = (X)1;", "struct X { int a; };",
                 "int f(int X);", "int x = X X;", "int x[] = { [X] = 1 };", "int x = y.X;", "typedef int X; X v;"]


def _h(s):
    return int.from_bytes(hashlib.blake2b(s.encode("utf-8", "replace"), digest_size=7).digest(), "big")


def judge(text, filename, steps, ntok=None, parser=None):
    """Run one parse under the monitors; returns (outcome, violation|None)."""
    S = sut.load()
    p = parser or S.CParser()
    if ntok is None:
        ntok = max(1, len(text) // 2)
    budget = 5000 + 500 * ntok + 4 * len(text)   # (per-character term: directive lines are scanned by small Python helpers)
    o = monitors.outcome(p.parse, text, filename, steps, budget)
    case = {"text": text, "filename": filename}
    if o[0] == "ok":
        if type(o[1]).__name__ != "FileAST":
            return o, {"kind": "not-a-FileAST", "sig": type(o[1]).__name__, "case": case,
                       "detail": {"returned": type(o[1]).__name__}}
        return o, None
    if o[0] == "perr":
        names = monitors.established_filenames(text, filename)
        if not monitors.location_prefix_ok(o[1], names):
            return o, {"kind": "no-location", "sig": o[1].split(":")[0][:20], "case": case,
                       "detail": {"message": o[1], "admissible_files": sorted(names)}}
        return o, None
    if o[0] == "rec":
        return o, {"kind": "recursion-on-shallow-input", "sig": "rec", "case": case, "detail": {}}
    if o[0] == "budget":
        return o, {"kind": "step-budget", "sig": "budget", "case": case,
                   "detail": {"budget": budget, "tokens": ntok}}
    return o, {"kind": "exception", "sig": f"{o[1]}@{o[3]}", "case": case,
               "detail": {"type": o[1], "message": o[2], "raised_in": o[3]}}


def run_shard(spec):
    S = sut.load()
    steps = monitors.StepMonitor()
    steps.start()
    res = {"evaluations": 0, "nontrivial_distinct": 0, "hashes": [], "violations": [], "samples": [],
           "counters": {"ok": 0, "perr": 0, "exc": 0, "budget": 0, "rec": 0, "max_steps_per_token": 0.0}}
    cnt = res["counters"]
    hashes = set()

    def record(o, v, text, fname, ntok):
        res["evaluations"] += 1
        cnt[o[0]] += 1
        if v is not None and len(res["violations"]) < 200:
            res["violations"].append(v)
        if ntok:
            spt = steps.n / ntok
            if spt > cnt["max_steps_per_token"] and steps.n > 400:
                cnt["max_steps_per_token"] = round(spt, 1)

    try:
        if spec["mode"] == "seq":
            alpha = {"45": ALPHA45, "16": ALPHA16, "18": ALPHA18}[spec["alpha"]]
            A = len(alpha)
            parser = S.CParser()
            for L in range(spec.get("minlen", 1), spec["maxlen"] + 1):
                total = A ** L
                for idx in range(spec["shard"], total, spec["nshards"]):
                    seq = []
                    k = idx
                    for _ in range(L):
                        seq.append(alpha[k % A])
                        k //= A
                    body = " ".join(seq)
                    for cname, pre, suf in CONTEXTS:
                        text = pre + body + suf
                        o, v = judge(text, "f.c", steps, ntok=L + 12, parser=parser)
                        record(o, v, text, "f.c", L + 12)
                        if L >= 2:
                            res["nontrivial_distinct"] += 1
                        if len(res["samples"]) < 2 and idx % 9973 == spec["shard"]:
                            res["samples"].append({"input": text, "outcome": o[0] if o[0] != "perr" else o[1]})
        elif spec["mode"] == "lit":
            import itertools
            parser = S.CParser()
            idx = 0
            for L in range(1, spec["maxlen"] + 1):
                for tup in itertools.product(LIT_ALPHA, repeat=L):
                    idx += 1
                    if idx % spec["nshards"] != spec["shard"]:
                        continue
                    lit = "".join(tup)
                    for text in ("int x = " + lit + ";", "void f(void){ " + lit + " ; }", "char *s = " + lit + " " + lit + ";"):
                        o, v = judge(text, "f.c", steps, ntok=L + 12, parser=parser)
                        record(o, v, text, "f.c", L + 12)
                        res["nontrivial_distinct"] += 1
            res["samples"].append({"input": "int x = 1uu;", "note": "every string over the literal alphabet in 3 contexts"})
        elif spec["mode"] == "mut":
            rnd = random.Random(spec["rseed"])
            pool = corpus.accepted_pool()
            from ..gen import cases as _cases
            for gi in range(40 if spec["n"] < 10000 else 400):
                _c = _cases.build({"k": "tu", "seed": spec["rseed"] * 1000 + gi, "style": "single", "render": "min"})
                if len(_c.text) < 4000:
                    pool.append((f"gen{gi}", _c.text))
            small = [(n, mutate.units(t)) for n, t in pool if len(t) < 1500]
            large = [(n, mutate.units(t)) for n, t in pool if len(t) >= 1500]
            for i in range(spec["n"]):
                name, us = rnd.choice(large) if (large and rnd.random() < 0.04) else rnd.choice(small)
                kind, mus = mutate.mutate(rnd, us, rnd.choice([1, 1, 1, 2, 3]))
                text = mutate.join(mus)
                fname = rnd.choice(FILENAMES) if rnd.random() < 0.1 else "m.c"
                o, v = judge(text, fname, steps, ntok=len(mus) + 5)
                record(o, v, text, fname, len(mus) + 5)
                if len(mus) >= 2:
                    hashes.add(_h(text))
                if len(res["samples"]) < 2 and i % 997 == 1:
                    res["samples"].append({"mutation": kind, "of": name, "input": text[:300],
                                           "outcome": o[0] if o[0] != "perr" else o[1]})
        elif spec["mode"] == "long":
            k = 0
            for ctx in LONG_CONTEXTS:
                for ri, run in enumerate(LONG_RUNS):
                    for n in spec["lens"]:
                        k += 1
                        if k % spec["nshards"] != spec["shard"]:
                            continue
                        text = ctx.replace("X", run(n))
                        o, v = judge(text, "long.c", steps, ntok=40)
                        if v is not None:
                            v["case"] = {"text": text[:200] + f"...<{len(text)} chars>", "filename": "long.c",
                                         "long": {"context": ctx, "run": ri, "n": n}}
                        record(o, v, text, "long.c", 0)
                        res["nontrivial_distinct"] += 1
            res["samples"].append({"long_context": LONG_CONTEXTS[0], "run": "1" * 12 + "...", "lengths": spec["lens"]})
        elif spec["mode"] == "prefix":
            # every character-level prefix of the small accepted programs (input that ends anywhere: inside a token, right
            # after a backslash, inside a directive line ...)
            from ..gen import extras
            texts = [t for _, t in corpus.zoo() + extras.TEXTS if len(t) <= spec["maxlen"]]
            texts += ["#pragma omp parallel \\\n for\n", "int x;\n#pragma pack(1) \\", "# 1 \"f.c\" 1 \\\n", "#line 7 \"a\\\"b\"\nint y;",
                      "char *s = \"a\\\nb\"; int c = '\\\\';", "int a = 1 ? 2 : 3; /* c */", "_Pragma(\"omp \\\"x\\\"\") int z;"]
            k = 0
            for t in texts:
                k += 1
                if k % spec["nshards"] != spec["shard"]:
                    continue
                for cut in range(len(t) + 1):
                    text = t[:cut]
                    o, v = judge(text, "p.c", steps, ntok=max(8, cut))
                    record(o, v, text, "p.c", 0)
                    if cut >= 2:
                        hashes.add(_h(text))
            res["samples"].append({"prefix_of": texts[0][:80], "programs": len(texts)})
        elif spec["mode"] == "fdef":
            parser = S.CParser()
            for sp in FDEF_SPECS:
                for dt in FDEF_DTORS:
                    for dl in FDEF_LISTS:
                        for bd in FDEF_BODIES:
                            text = "typedef int T; " + " ".join(x for x in (sp, dt, dl, bd) if x) + " int after;"
                            o, v = judge(text, "fd.c", steps, ntok=40, parser=parser)
                            record(o, v, text, "fd.c", 0)
                            res["nontrivial_distinct"] += 1
                            text2 = " ".join(x for x in (sp, dt, dl, bd) if x)
                            o, v = judge(text2, "fd.c", steps, ntok=40, parser=parser)
                            record(o, v, text2, "fd.c", 0)
                            res["nontrivial_distinct"] += 1
            res["samples"].append({"fdef_shape": "int f(a) int a; { return a; }", "slots": [len(FDEF_SPECS), len(FDEF_DTORS), len(FDEF_LISTS), len(FDEF_BODIES)]})
        elif spec["mode"] == "noise":
            rnd = random.Random(spec["rseed"])
            for i in range(spec["n"]):
                text = mutate.noise(rnd, 60)
                if rnd.random() < 0.3:
                    text = "int x; void f(void){ " + text
                fname = rnd.choice(FILENAMES)
                o, v = judge(text, fname, steps, ntok=len(text) + 5)
                record(o, v, text, fname, len(text) + 5)
                if len(text) >= 2:
                    hashes.add(_h(text + "\0" + fname))
                if len(res["samples"]) < 1 and i == 7:
                    res["samples"].append({"noise": text, "filename": fname,
                                           "outcome": o[0] if o[0] != "perr" else o[1]})
    finally:
        steps.stop()
    res["hashes"] = sorted(hashes)
    return res


def summarize(results, tier, seed):
    tot = {}
    for r in results:
        for k, v in r.get("counters", {}).items():
            if k == "max_steps_per_token":
                tot[k] = max(tot.get(k, 0), v)
            else:
                tot[k] = tot.get(k, 0) + v
    return {"monitors": {"exception_discipline": tot},
            "exhaustive_parts": [f"all sequences of <= {3 if tier == 'quick' else 4} symbols over {len(ALPHA45)} symbols x {len(CONTEXTS)} contexts"] +
                                (["all sequences of 5 symbols over 16 symbols x 6 contexts"] if tier == "thorough" else []),
            "alphabet": ALPHA45, "type_alphabet": ALPHA18, "literal_alphabet": LIT_ALPHA, "contexts": [c[0] for c in CONTEXTS]}


def replay(rec):
    steps = monitors.StepMonitor()
    steps.start()
    try:
        c = rec["case"]
        if "long" in c:
            c = dict(c, text=c["long"]["context"].replace("X", LONG_RUNS[c["long"]["run"]](c["long"]["n"])))
        o, v = judge(c["text"], c["filename"], steps, ntok=40 if "long" in rec["case"] else None)
    finally:
        steps.stop()
    print("outcome:", o[:1] if o[0] == "ok" else o)
    return [v] if v else []
