"""C11 - coordinates point at the real source location of every construct and error.

Position monitor: the layout stage records the true (file, line, column) of every token
(presumed line/file as re-based by linemarkers); the lock-step matcher pairs AST nodes
with model nodes, whose token spans are known without trusting pycparser."""
import hashlib
import random

from .. import monitors, sut
from ..gen import cases, layout as lay, match, model
from ..nf import walk

ID = "C11"
LEVEL = "exploration"
RULE = ("generated programs (random translation units, expression/declaration/statement batches) laid out with random "
        "whitespace and with linemarkers / #line directives that change line and file between arbitrary tokens; every "
        "coordinate of every AST node must be the start of a token of the input, inside the token span of the construct "
        "the node was paired with (exactly the spelling token for identifiers, constants, declared names, enumerators); "
        "error part: one illegal character injected as an extra token at every k-th token boundary, and single token "
        "deletions/duplications, under the same layouts. Non-trivial: program has >= 1 directive-rebased token or >= 10 "
        "nodes with coordinates; distinct = distinct (program, layout seed).")
ASSUMPTIONS = ["abstract TypeDecl nodes and FileAST legitimately carry no coordinate",
               "for '#pragma' lines the admissible coordinates are the word 'pragma' and the start of the pragma text"]
SHARD_TIMEOUT = {"quick": 900, "thorough": 3600}
MUST_HAVE = {"Decl", "Typedef", "FuncDef", "Compound", "If", "While", "DoWhile", "For", "Switch", "Case", "Default",
             "Label", "Goto", "Break", "Continue", "Return", "EmptyStatement", "Pragma", "StaticAssert", "ID", "Constant",
             "BinaryOp", "UnaryOp", "Assignment", "TernaryOp", "Cast", "FuncCall", "ArrayRef", "StructRef",
             "CompoundLiteral", "NamedInitializer", "Enumerator", "Struct", "Union", "Enum", "IdentifierType"}
EXACT_KINDS = {"id", "const", "str", "enumerator"}


def plan(tier, seed):
    n = 14
    ngen = 220 if tier == "quick" else 2000
    return [{"name": f"coord-{i}", "n": ngen, "rseed": seed * 7919 + i, "nerr": 160 if tier == "quick" else 1500} for i in range(n)]


def _coord_key(c):
    return (getattr(c, "file", None), getattr(c, "line", None), getattr(c, "column", None))


def check_coords(case, ast, M, counters):
    L = case.L
    vs = []
    recipe = case.recipe

    def bad(kind, a, detail):
        if len(vs) < 6:
            vs.append({"kind": kind, "sig": type(a).__name__ + ":" + str(detail.get("role", "")), "case": {"recipe": recipe},
                       "detail": dict(detail, node=type(a).__name__, coord=str(getattr(a, "coord", None)),
                                      text=L.text[:700])})

    # (1) every coordinate anywhere in the tree is a token start of the input
    for n in walk(ast):
        c = getattr(n, "coord", None)
        cname = type(n).__name__
        if c is None:
            if cname in MUST_HAVE and not (cname == "IdentifierType"):
                bad("node-without-coordinate", n, {})
            continue
        counters["coords_checked"] += 1
        if _coord_key(c) not in L.index:
            bad("coordinate-is-not-a-token-start", n, {"expected": "a (file, line, column) at which a token of the input starts"})
    # (2) paired nodes: inside the construct's span; exact for spelling tokens
    for a, m, role in M.pairs:
        c = getattr(a, "coord", None)
        if c is None:
            continue
        idxs = L.index.get(_coord_key(c))
        if not idxs:
            continue  # already reported
        first, last = m.first, m.last
        if m.aux and isinstance(m.aux, tuple):
            first, last = min(first, m.aux[0]), max(last, m.aux[1])
        if first is None:
            continue
        counters["spans_checked"] += 1
        cname = type(a).__name__
        if role == "node" and m.k in EXACT_KINDS and cname in ("ID", "Constant", "Enumerator"):
            if m.tok not in idxs:
                bad("leaf-coordinate-not-on-its-token", a, {"role": role, "expected_token": case.E.toks[m.tok],
                                                            "expected_position": L.pos[m.tok]})
            continue
        if role == "typedecl" and m.k == "dtor" and m["name"] is not None and cname == "TypeDecl":
            if m.tok not in idxs:
                bad("declared-name-coordinate-not-on-its-token", a, {"role": role, "expected_token": m["name"],
                                                                     "expected_position": L.pos[m.tok]})
            continue
        if role == "sassert-semi":
            if m.aux not in idxs:
                bad("coordinate-outside-construct", a, {"role": role})
            continue
        if role == "deriv":
            # a derivation node belongs to the declarator; for a parameter/typename it may also take the
            # coordinate of the specifiers of the same declaration: accept the declarator span only
            pass
        if not any(first <= i <= last for i in idxs):
            bad("coordinate-outside-construct", a, {"role": role, "model": m.k,
                                                    "construct_tokens": " ".join(case.E.toks[first:last + 1])[:200],
                                                    "coordinate_token": case.E.toks[idxs[0]] if idxs[0] < len(case.E.toks) else None})
    return vs


def check_error_location(toks, directive, rnd, style, recipe, counters):
    """Inject one illegal character as an extra token; the ParseError must name exactly its position."""
    S = sut.load()
    vs = []
    ch = rnd.choice(["@", "`", "\\"])
    j = rnd.randrange(0, len(toks) + 1)
    t2 = toks[:j] + [ch] + toks[j:]
    d2 = {i if i < j else i + 1 for i in directive}
    sd = rnd.randrange(1 << 30)
    L = lay.layout(t2, d2, style, random.Random(sd))
    case = {"tokens": t2, "directive": sorted(d2), "style": style, "layout_seed": sd, "injected_at": j, "origin": recipe}
    try:
        S.CParser().parse(L.text, "f.c")
        return vs  # acceptance is C18's business
    except S.ParseError as e:
        msg = str(e)
    except Exception:  # noqa: BLE001 - C06's business
        return vs
    counters["error_locations_checked"] += 1
    names = monitors.established_filenames(L.text, "f.c")
    loc = monitors.parse_location(msg, names)
    want = L.pos[j]
    if loc != want:
        vs.append({"kind": "illegal-character-location", "sig": ch, "case": case,
                   "detail": {"message": msg, "expected_location": want, "text": L.text[:600]}})
    return vs


def check_mutant_error_location(toks, directive, rnd, style, recipe, counters):
    S = sut.load()
    j = rnd.randrange(len(toks))
    if j in directive:
        return []
    if rnd.random() < 0.5:
        t2 = toks[:j] + toks[j + 1:]
        d2 = {i if i < j else i - 1 for i in directive if i != j}
    else:
        t2 = toks[:j] + [toks[j]] + toks[j:]
        d2 = {i if i < j else i + 1 for i in directive}
    sd = rnd.randrange(1 << 30)
    L = lay.layout(t2, d2, style, random.Random(sd))
    try:
        S.CParser().parse(L.text, "f.c")
        return []
    except S.ParseError as e:
        msg = str(e)
    except Exception:  # noqa: BLE001
        return []
    names = monitors.established_filenames(L.text, "f.c")
    loc = monitors.parse_location(msg, names)
    if loc is None:
        return []  # 'file: message' form (e.g. at end of input) names no token
    counters["error_locations_checked"] += 1
    if loc not in L.index:
        return [{"kind": "error-location-is-not-a-token", "sig": msg.split(": ", 1)[-1][:25],
                 "case": {"tokens": t2, "directive": sorted(d2), "style": style, "layout_seed": sd, "origin": recipe},
                 "detail": {"message": msg, "text": L.text[:600]}}]
    return []


def gen_recipes(rnd, n):
    out = []
    for i in range(n):
        r = rnd.random()
        sd = rnd.randrange(1 << 30)
        style = rnd.choice(["marked", "marked", "marked", "random", "lines", "tabs", "minimal"])
        render = rnd.choice(["min", "rand", "full"])
        if r < 0.5:
            out.append({"k": "tu", "seed": sd, "style": style, "render": render})
        elif r < 0.7:
            out.append({"k": "rexprs", "seed": sd, "count": 10, "depth": rnd.choice([2, 3, 5]), "style": style, "render": render,
                        "ctx": rnd.choice(list(cases.EXPR_CONTEXTS))})
        elif r < 0.82:
            out.append({"k": "rdecls", "seed": sd, "count": 6, "style": style, "render": render})
        elif r < 0.88:
            # derivation sequences in every declarator context (parameter context: also [*], [quals *], [static n], (T0))
            ctx = rnd.choice(cases.DECL_CONTEXTS + cases.TN_CONTEXTS + ["param", "param"])
            nv = 16 if ctx == "param" else 8
            out.append({"k": "derivs", "ctx": ctx, "seqs": [[rnd.randrange(nv) for _ in range(rnd.randrange(0, 4))] for _ in range(10)],
                        "seed": sd, "style": style})
        else:
            out.append({"k": "rstmts", "seed": sd, "count": 2, "depth": rnd.choice([2, 3, 5]), "style": style, "render": render})
    return out


def eval_recipe(recipe, counters):
    S = sut.load()
    case = cases.build(recipe)
    try:
        ast = S.CParser().parse(case.text, "f.c")
    except Exception:  # noqa: BLE001 - rejection is C01's business
        return case, None
    M = match.Matcher(S)
    M.tu(ast, case.model)
    if M.bad:
        return case, []  # tree mismatch is C02-C05's business; spans would be unreliable
    return case, check_coords(case, ast, M, counters)


def run_shard(spec):
    res = {"evaluations": 0, "nontrivial_distinct": 0, "hashes": [], "violations": [], "samples": [],
           "counters": {"coords_checked": 0, "spans_checked": 0, "error_locations_checked": 0, "programs": 0}}
    hs = set()
    cnt = res["counters"]
    rnd = random.Random(spec["rseed"])
    pool = []
    for r in gen_recipes(rnd, spec["n"]):
        case, vs = eval_recipe(r, cnt)
        if vs is None:
            continue
        cnt["programs"] += 1
        res["evaluations"] += 1
        pool.append((case.E.toks, case.E.directive, r))
        hs.add(int.from_bytes(hashlib.blake2b(case.text.encode("utf-8", "replace"), digest_size=7).digest(), "big"))
        if vs and len(res["violations"]) < 40:
            res["violations"] += vs
        if len(res["samples"]) < 1:
            res["samples"].append({"recipe": r, "text": case.text[:300]})
    for i in range(spec["nerr"]):
        toks, directive, r = rnd.choice(pool)
        style = rnd.choice(["marked", "random", "lines", "single"])
        f = check_error_location if i % 2 == 0 else check_mutant_error_location
        vs = f(toks, directive, rnd, style, r, cnt)
        res["evaluations"] += 1
        if vs and len(res["violations"]) < 40:
            res["violations"] += vs
    res["hashes"] = sorted(hs)
    return res


def summarize(results, tier, seed):
    tot = {}
    for r in results:
        for k, v in r.get("counters", {}).items():
            tot[k] = tot.get(k, 0) + v
    return {"monitors": {"position_monitor": tot}}


def replay(rec):
    c = rec["case"]
    cnt = {"coords_checked": 0, "spans_checked": 0, "error_locations_checked": 0, "programs": 0}
    if "recipe" in c:
        return eval_recipe(c["recipe"], cnt)[1] or []
    S = sut.load()
    L = lay.layout(c["tokens"], set(c["directive"]), c["style"], random.Random(c["layout_seed"]))
    try:
        S.CParser().parse(L.text, "f.c")
        return []
    except S.ParseError as e:
        msg = str(e)
    loc = monitors.parse_location(msg, monitors.established_filenames(L.text, "f.c"))
    print("message:", msg, "location:", loc)
    if "injected_at" in c:
        return [] if loc == L.pos[c["injected_at"]] else [{"kind": rec["kind"], "detail": {"message": msg, "expected": L.pos[c["injected_at"]]}}]
    return [] if (loc is None or loc in L.index) else [{"kind": rec["kind"], "detail": {"message": msg}}]
