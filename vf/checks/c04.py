"""C04 - an identifier is a type name exactly where C scoping makes it one.

Reference-model monitor: declaration histories over two names are generated together
with a small model of C99 6.2.1 scoping (ref.scope below); after every event and every
scope exit probe statements are emitted whose reading (declaration / cast / type operand
vs expression) is observed in the AST.  Programs are valid C only under the expected
reading, so gcc -fsyntax-only validates the reference model on a sample."""
import hashlib
import itertools
import os
import random
import shutil
import subprocess
import tempfile

from .. import sut

ID = "C04"
LEVEL = "exploration"
RULE = ("histories over the names T and U (initially typedef / typedef-or-object at file scope) of the events {typedef, "
        "object, object with initializer, enumerator, struct tag, enum tag, member, label, prototype-only parameter, "
        "function definition with that parameter name, for-init object, inner block open/close, enumerator inside a struct "
        "body, K&R parameter, nested-declarator parameter}; after every event and scope exit each name is probed with "
        "'N * v;', '(N)(v);', 'sizeof(N)', 'N (v);'. Exhaustive for all legal event sequences of length <= 3 (quick; thorough adds one "
        "seed-selected half of the length-4 sequences) with block nesting <= 2; random longer histories. Non-trivial: history with >= 1 event besides probes; "
        "distinct = distinct program texts.")
ASSUMPTIONS = ["ref.scope: C99 6.2.1 ordinary-identifier scoping (file / function body incl. parameters / block / for); tags, "
               "members and labels live in other name spaces",
               "a sample of the generated programs is validated with gcc -std=c99 -fsyntax-only (valid only under the expected readings)"]
SHARD_TIMEOUT = {"quick": 900, "thorough": 3600}
NAMES = ["T", "U"]
BLOCK_EVENTS = ["typedef", "obj", "objinit", "obj2", "enum", "enumval", "tag", "etag", "member", "label", "proto", "for",
                "open", "close", "struct_enum", "selfinit", "sizeof_enum_init", "ubitfield", "tagobj", "for_if", "fname_typedef",
                "etagref", "forif", "ifnoelse", "nestinit"]
NEUTRAL_EVENTS = {"open", "close", "etagref", "forif", "ifnoelse", "nestinit"}   # events that involve none of the tracked names
KF_EVENTS = {"for_if": "K11", "enum": "K08", "enumval": "K08", "struct_enum": "K08", "sizeof_enum_init": "K08", "label": "K08",
             "for": "K11", "selfinit": "K12", "objinit": "K12", "kr": "K13", "nested": "K13"}


class Scope:
    """ref.scope - ordinary identifiers only."""

    def __init__(self):
        self.stack = [{}]

    def push(self):
        self.stack.append({})

    def pop(self):
        self.stack.pop()

    def declare(self, n, kind):
        self.stack[-1][n] = kind

    def here(self, n):
        return self.stack[-1].get(n)

    def look(self, n):
        for d in reversed(self.stack):
            if n in d:
                return d[n]
        return None


class Prog:
    def __init__(self):
        self.lines = []
        self.expected = []   # probe index -> 'type' | 'expr'
        self.triggers = []   # (kf, description)
        self.uid = 0
        self.labels = set()
        self.tagkind = {}
        self.novalidate = False
        self.std = "c99"
        self.later_typedef_in_scope = []

    def fresh(self, p):
        self.uid += 1
        return f"{p}{self.uid}"

    def probe(self, sc, block=True):
        for n in NAMES + ["W"]:
            kind = sc.look(n)
            if kind is None:
                continue
            k = len(self.expected)
            shape = k % 4
            if kind == "typedef":
                self.expected.append("type")
                v = self.fresh("p")
                body = [f"{n} * {v};", f"({n})(v);", f"v = sizeof({n});", f"{n} ({v});"][shape]
            else:
                self.expected.append("expr")
                if kind == "fn":
                    body = [f"(void)&{n};", f"({n})(v);", f"v = sizeof({n});", f"{n} (v);"][shape]
                else:
                    body = [f"{n} * v;", f"v = ({n}) + (v);", f"v = sizeof({n});", f"v = {n} & (v);"][shape]
            self.lines.append("{ %s %d; }" % (body, k))


def apply_event(P, sc, ev, n, depth_left, rename=None):
    """Append the text of one event; update the reference scope.  Returns False if the event is not legal here."""
    name = rename or n
    cur = sc.here(n)
    vis = sc.look(n)
    if ev == "typedef":
        if cur is not None:
            return False
        P.lines.append(f"typedef char {name};")
        sc.declare(n, "typedef") if not rename else None
    elif ev == "obj":
        if cur is not None:
            return False
        P.lines.append(f"int {name};")
        sc.declare(n, "obj") if not rename else None
    elif ev == "obj2":
        if cur is not None:
            return False
        P.lines.append(f"int {P.fresh('o')} = 1, {name} = 2;")
        sc.declare(n, "obj") if not rename else None
    elif ev == "objinit":
        # the second declarator's initializer uses the first declared name (declarator-end scoping)
        if cur is not None:
            return False
        if vis == "typedef":
            P.triggers.append(("K12", f"'int {n}, o = {n} * 2;' while {n} names a type"))
        P.lines.append(f"int {name}, {P.fresh('o')} = {name} * 2;")
        sc.declare(n, "obj") if not rename else None
    elif ev == "selfinit":
        if cur is not None:
            return False
        if vis == "typedef":
            P.triggers.append(("K12", f"'int {n} = sizeof({n});' while {n} names a type"))
        P.lines.append(f"int {name} = sizeof({name});")
        sc.declare(n, "obj") if not rename else None
    elif ev in ("enum", "enumval"):
        if cur is not None:
            return False
        if vis == "typedef":
            P.triggers.append(("K08", f"enumerator {n} while {n} names a type"))
        P.lines.append("enum { %s%s };" % (name, " = 1" if ev == "enumval" else ""))
        sc.declare(n, "obj") if not rename else None
    elif ev == "struct_enum":
        if cur is not None:
            return False
        if vis == "typedef":
            P.triggers.append(("K08", f"enumerator {n} (inside a struct body) while {n} names a type"))
        P.lines.append("struct %s { enum { %s = 1 } e; };" % (P.fresh("S"), name))
        sc.declare(n, "obj") if not rename else None
    elif ev == "sizeof_enum_init":
        if cur is not None:
            return False
        if vis == "typedef":
            P.triggers.append(("K08", f"enumerator {n} (inside initializer braces) while {n} names a type"))
        P.lines.append("int %s[2] = { sizeof(enum { %s = 3 }), 0 };" % (P.fresh("ia"), name))
        sc.declare(n, "obj") if not rename else None
    elif ev == "tag":
        # one tag kind per name in the whole program ('struct N' and 'enum N' in nested scopes would clash or shadow)
        if P.tagkind.setdefault(n, "struct") != "struct":
            return False
        P.lines.append(f"struct {name} *{P.fresh('s')};")
    elif ev == "etag":
        if P.tagkind.setdefault(n, "enum") != "enum" or (n, "etag") in P.labels:
            return False
        P.labels.add((n, "etag"))
        P.lines.append("enum %s { %s } %s;" % (name, P.fresh("EN"), P.fresh("e")))
    elif ev == "member":
        P.lines.append("struct %s { int %s; };" % (P.fresh("S"), name))
    elif ev == "tagobj":
        # an object of enum / struct type named like a (possibly visible) typedef, with more than the bare name after it
        if cur is not None:
            return False
        k = P.uid % 4
        # (integer-typed objects only: the probes use the name in arithmetic)
        P.lines.append([f"enum EREF {name} = EREF_A;", f"enum EREF {name}, {P.fresh('o')};",
                        f"enum EREF {name} = EREF_B, {P.fresh('o')} = EREF_A;", f"const enum EREF {name} = EREF_A;"][k])
        sc.declare(n, "obj") if not rename else None
    elif ev == "for_if":
        # for-init object + unbraced body ending in an else-less if: the parser peeks one token past the loop, which may
        # be the '{' or '}' of a block (the lexer pushes / pops scopes when it reads them)
        if len(sc.stack) < 2:
            return False
        if vis == "typedef" or cur is not None:
            P.triggers.append(("K11", f"for-init object {n} while {n} is declared/visible as a type in the enclosing scope"))
        P.lines.append(f"for (int {name} = 0; {name} < 1; {name}++) if (v) v = 1;")
    elif ev == "fname_typedef":
        # the enclosing function's own name redeclared as a typedef at the top level of its body
        if n != "T" or len(sc.stack) != 2 or ("F", "f") in P.labels:
            return False
        P.labels.add(("F", "f"))
        k = len(P.expected)
        P.expected.append("type")
        P.lines.append("typedef int f;")
        P.lines.append("{ f * %s; %d; }" % (P.fresh("p"), k))
    elif ev == "ubitfield":
        # an unnamed bit-field whose type is the typedef name: a use of the name directly before ':'
        if vis != "typedef":
            return False
        k = P.uid % 3
        P.lines.append("struct %s { %s; int m; };" % (P.fresh("S"), [f"{name} : 3", f"const {name} : 2", f"int a : 1; {name}\n: 1"][k]))
    elif ev == "label":
        if ("L", n) in P.labels or len(sc.stack) < 2:
            return False
        P.labels.add(("L", n))
        if vis == "typedef":
            P.triggers.append(("K08", f"label {n} while {n} names a type"))
        P.lines.append(f"{name}: ;")
    elif ev == "proto":
        P.lines.append(f"void {P.fresh('g')}(int {name}, int ({name}_)(int {name}));".replace(f"{name}_", P.fresh("h")))
    elif ev == "for":
        if depth_left <= 0 or len(sc.stack) < 2:
            return False
        if vis == "typedef" or cur is not None:
            P.triggers.append(("K11", f"for-init object {n} while {n} is declared/visible as a type in the enclosing scope"))
        P.pending_for = getattr(P, "pending_for", [])
        P.lines.append(f"for (int {name} = 0; {name} < 1; {name}++) {{")
        sc.push()
        sc.declare(n, "obj") if not rename else None
        sc.push()
        P.probe(sc)
        sc.pop()
        sc.pop()
        P.lines.append("}")
    elif ev == "etagref":
        # a tag-only reference: no enumerator list follows the 'enum' keyword
        P.lines.append(f"enum EREF {P.fresh('er')};")
    elif ev == "forif":
        # a for loop with a declaration whose unbraced body ends in an if without else: the parser has to look one
        # token past the loop (for 'else') - that token is whatever comes next ('}' or '{' included)
        if len(sc.stack) < 2:
            return False
        P.lines.append(f"for (int {P.fresh('fi')} = 0; v < 1; v++) if (v) v = 1;")
    elif ev == "ifnoelse":
        if len(sc.stack) < 2:
            return False
        P.lines.append("if (v) if (v) v = 2;")
    elif ev == "nestinit":
        # braces that open no scope of their own, nested directly inside each other (initializer lists, compound literals)
        if len(sc.stack) < 2:
            return False
        k = P.uid % 4
        P.lines.append([f"int {P.fresh('ni')}[2][2] = {{{{1, 2}}, {{3, 4}}}};",
                        f"struct {{ int a[2]; int b; }} {P.fresh('ni')} = {{{{1, 2}}, 3}};",
                        f"int *{P.fresh('ni')} = (int[]){{ ((int[]){{1, 2}})[0], 3 }};",
                        f"int {P.fresh('ni')}[2][1][1] = {{{{{{1}}}}, {{{{2}}}}}};"][k])
    elif ev == "open":
        if depth_left <= 0 or len(sc.stack) < 2:
            return False
        sc.push()
        P.lines.append("{")
        return "opened"
    elif ev == "close":
        return False
    else:
        raise KeyError(ev)
    return True


PSTYLES = ["int {n}", "int a0, int {n}", "void *, int {n}", "int {n}, ...", "int (*cb)(int {n}_unused), int {n}", "int {n}, char *",
           # a parenthesised typedef name in a parameter declarator is a parameter list (6.7.5.3p11) whatever precedes the '(':
           # W stays a type in the body (probed there)
           "int *(W), int {n}", "int (*(W)), int {n}", "int * const (W), int {n}", "int (W), int {n}, int (*(*)(W))",
           # ... but after a '*' the parenthesis cannot open a parameter list: the name is the parameter's name
           "int (*{n})(int)", "int (*{n}), int (*const q9)(int (*{n}))", "int ((*{n})), char *"]
W_STYLES = (6, 7, 8, 9)
PTR_STYLES = (10, 11, 12)   # the parameter is a pointer (to function / to int): probes must not use it in arithmetic


def build_program(u_kind, events, param=None, kr=False, nested=False, renames=None, pstyle=0):
    """events: list of (event, name).  Blocks opened by 'open' are closed by 'close' events or at the end.
    Returns Prog or None when the history is not legal C."""
    renames = renames or {}
    P = Prog()
    sc = Scope()
    P.lines.append("enum EREF { EREF_A, EREF_B }; struct SREF { int sm; }; union UREF { int um; };")
    P.lines.append("typedef int T;")
    sc.declare("T", "typedef")
    if u_kind == "typedef":
        P.lines.append("typedef long U;")
        sc.declare("U", "typedef")
    else:
        P.lines.append("int U;")
        sc.declare("U", "obj")
    P.lines.append("int v;")
    if pstyle in W_STYLES and param and not kr and not nested:
        P.lines.append("typedef int W;")
        sc.declare("W", "typedef")
        P.std = "c2x"   # unnamed parameters in a definition: valid syntax in C99, a constraint violation before C23
    sc.push()
    pn = None
    if param:
        pn = renames.get(("param", 0), param)
        sc.declare(param, "obj") if ("param", 0) not in renames else None
    if kr and param:
        if sc.stack[0].get(param) == "typedef":
            return None  # 'f(T)' with T a typedef name is a prototype, not an identifier list
        P.triggers.append(("K13", f"K&R parameter named {param}"))
        P.lines.append(f"void f({pn}) int {pn}; {{")
    elif nested and param:
        P.triggers.append(("K13", f"parameter {param} of a function whose declarator is nested"))
        P.lines.append(f"int (*f(int {pn}))(int) {{")
    elif param:
        P.lines.append("void f(" + PSTYLES[pstyle].format(n=pn) + ") {")
        if pstyle in PTR_STYLES:
            P.novalidate = True   # the probes use the name in integer arithmetic: syntactically fine, not type-correct for a pointer
        if pstyle in (2, 5):
            P.std = "c2x"  # an unnamed parameter in a definition is a C99 constraint violation (valid syntax, valid C23)
    else:
        P.lines.append("void f(void) {")
    P.probe(sc)
    opened = 0
    depth_left = 2
    for i, (ev, n) in enumerate(events):
        if ev == "close":
            if not opened:
                return None
            sc.pop()
            P.lines.append("}")
            opened -= 1
            depth_left += 1
            P.probe(sc)
            continue
        # K11, second signature: a typedef of the same name later in the block that encloses a for-init
        r = apply_event(P, sc, ev, n, depth_left, rename=renames.get(("ev", i)))
        if r is False:
            return None
        if r == "opened":
            opened += 1
            depth_left -= 1
        if (ev in NEUTRAL_EVENTS and ev not in ("open", "close", "nestinit")) or ev == "for_if":
            continue   # no probe: the token that follows a neutral event must be the next event's own first token
        P.probe(sc)
    while opened:
        sc.pop()
        P.lines.append("}")
        opened -= 1
        P.probe(sc)
    if nested:
        P.lines.append("return 0;")
    P.lines.append("}")
    sc.pop()
    # file-scope probes: sizeof works under both readings
    for n in NAMES:
        kind = sc.look(n)
        k = len(P.expected)
        P.expected.append("type" if kind == "typedef" else "expr")
        P.lines.append("int %s[2] = { sizeof(%s), %d };" % (P.fresh("z"), n, k))
    # K11 second signature
    seen_for = {}
    level = 0
    for i, (ev, n) in enumerate(events):
        if ev == "open":
            level += 1
        elif ev == "close":
            level -= 1
        elif ev in ("for", "for_if"):
            seen_for.setdefault((n, level), i)
        elif ev == "typedef" and (n, level) in seen_for:
            P.triggers.append(("K11", f"typedef {n} declared after a for-init object {n} in the same block"))
    return P


def observe(ast):
    """probe index -> observed reading."""
    S = sut.load()
    A = S.c_ast
    out = {}

    def classify(first):
        t = type(first).__name__
        if t == "Decl":
            return "type"
        if t == "Cast":
            # (N)(v) as a cast = type reading; '(void)&N' is a cast of an expression probe
            if type(first.to_type.type.type).__name__ == "IdentifierType" and first.to_type.type.type.names == ["void"]:
                return "expr"
            return "type"
        if t in ("BinaryOp", "FuncCall"):
            return "expr"
        if t == "Assignment":
            r = first.rvalue
            if type(r).__name__ == "UnaryOp" and r.op == "sizeof":
                return "type" if type(r.expr).__name__ == "Typename" else "expr"
            return "expr"
        return "other:" + t

    def walk(n):
        if isinstance(n, A.Compound) and n.block_items and len(n.block_items) == 2 and isinstance(n.block_items[1], A.Constant):
            out[int(n.block_items[1].value)] = classify(n.block_items[0])
            return
        for _, c in n.children():
            walk(c)
    for e in ast.ext:
        if isinstance(e, A.FuncDef):
            walk(e.body)
        elif isinstance(e, A.Decl) and isinstance(e.init, A.InitList) and len(e.init.exprs) == 2 and e.name.startswith("z"):
            s, k = e.init.exprs
            out[int(k.value)] = "type" if type(s.expr).__name__ == "Typename" else "expr"
    return out


def evaluate(P):
    """Returns None if all probes read as expected, else a dict describing the deviation."""
    S = sut.load()
    text = "\n".join(P.lines) + "\n"
    try:
        ast = S.CParser().parse(text, "scope.c")
    except S.ParseError as e:
        return {"what": "rejected", "error": str(e)}
    except Exception as e:  # noqa: BLE001
        return {"what": "exception", "error": f"{type(e).__name__}: {e}"}
    obs = observe(ast)
    bad = [(k, exp, obs.get(k)) for k, exp in enumerate(P.expected) if obs.get(k) != exp]
    if bad:
        return {"what": "misread", "probes": bad[:4]}
    return None


def judge(u_kind, events, param=None, kr=False, nested=False, counters=None, pstyle=0):
    P = build_program(u_kind, events, param, kr, nested, pstyle=pstyle)
    if P is None:
        return None, None
    text = "\n".join(P.lines) + "\n"
    dev = evaluate(P)
    recipe = {"u_kind": u_kind, "events": [list(e) for e in events], "param": param, "kr": kr, "nested": nested, "pstyle": pstyle}
    if dev is None:
        return P, None
    if P.triggers:
        # neutralised twin: the same history with the names of the trigger events replaced by fresh names
        kfs = sorted({k for k, _ in P.triggers})
        ren = {}
        for i, (ev, n) in enumerate(events):
            if ev in KF_EVENTS:
                ren[("ev", i)] = f"zz{i}"
        if kr or nested:
            ren[("param", 0)] = "zzp"
        twin = build_program(u_kind, events, param, kr, nested, renames=ren, pstyle=pstyle)
        tdev = evaluate(twin) if twin is not None else {"what": "twin not buildable"}
        if tdev is None:
            if counters is not None:
                for k in kfs:
                    counters["kf"][k] = counters["kf"].get(k, 0) + 1
            return P, None
        return P, {"kind": "scope-reading-differs", "sig": "twin-also-fails:" + dev["what"], "case": {"recipe": recipe},
                   "detail": {"deviation": dev, "known_finding_triggers": P.triggers, "neutralised_twin_deviation": tdev, "text": text}}
    return P, {"kind": "scope-reading-differs", "sig": dev["what"] + ":" + str(dev.get("probes", dev.get("error", "")))[:40],
               "case": {"recipe": recipe}, "detail": {"deviation": dev, "text": text}}


def gcc_validate(texts):
    """gcc -std=c99 (c2x when parameters of a definition are unnamed) -fsyntax-only on programs that are valid only
    under the expected readings; texts = [(text, std)]."""
    d = tempfile.mkdtemp(prefix="vf-c04-")
    bad = []
    try:
        for i, (t, std) in enumerate(texts):
            fn = os.path.join(d, f"p{i}.c")
            with open(fn, "w") as f:
                f.write(t)
            r = subprocess.run(["gcc", "-std=" + std, "-fsyntax-only", "-w", fn], capture_output=True, text=True)
            if r.returncode != 0:
                bad.append((t, r.stderr[:300]))
    finally:
        shutil.rmtree(d, ignore_errors=True)
    return bad


def plan(tier, seed):
    n = 16
    specs = [{"name": f"exh-{i}", "mode": "exh", "maxlen": 3 if tier == "quick" else 4, "shard": i, "nshards": n, "half": seed % 2} for i in range(n)]
    for i in range(6):
        specs.append({"name": f"rand-{i}", "mode": "rand", "n": 500 if tier == "quick" else 20000, "rseed": seed * 101 + i,
                      "ngcc": 12 if tier == "quick" else 80})
    return specs


def run_shard(spec):
    res = {"evaluations": 0, "nontrivial_distinct": 0, "hashes": [], "violations": [], "samples": [],
           "counters": {"programs": 0, "probes": 0, "with_triggers": 0, "gcc_validated": 0, "oracle_disagreements": 0, "kf": {}}}
    cnt = res["counters"]
    hs = set()
    alphabet = [(e, n) for e in BLOCK_EVENTS for n in (NAMES if e not in NEUTRAL_EVENTS else ["-"])]

    def one(u_kind, events, param=None, kr=False, nested=False, pstyle=0):
        P, v = judge(u_kind, events, param, kr, nested, cnt, pstyle)
        if P is None:
            return None
        cnt["programs"] += 1
        cnt["probes"] += len(P.expected)
        if P.triggers:
            cnt["with_triggers"] += 1
        res["evaluations"] += 1
        if v and len(res["violations"]) < 40:
            res["violations"].append(v)
        return P

    if spec["mode"] == "exh":
        idx = 0
        for L in range(0, spec["maxlen"] + 1):
            for seq in itertools.product(alphabet, repeat=L):
                idx += 1
                if idx % spec["nshards"] != spec["shard"]:
                    continue
                if L == 4 and (idx // spec["nshards"]) % 2 != spec.get("half", 0):
                    continue     # length-4 histories: one half per run, selected by the seed (keeps the thorough tier under an hour)
                for u_kind in ("typedef", "obj"):
                    if L <= 2:
                        # every parameter-list style x parameter name for the short histories
                        for ps in range(len(PSTYLES)):
                            for pname in NAMES:
                                one(u_kind, list(seq), pname, False, False, ps)
                    # neutral statements (tag-only enum reference, for/if without braces or else) directly before the
                    # first block open / block close / for event: exposes look-ahead and brace-bookkeeping slips
                    evs = [e for e, _ in seq]
                    for anchor in ("open", "close", "for"):
                        if anchor in evs:
                            at = evs.index(anchor)
                            for ne in ("etagref", "forif", "ifnoelse"):
                                one(u_kind, list(seq[:at]) + [(ne, "-")] + list(seq[at:]))
                    P = one(u_kind, list(seq))
                    if P is not None:
                        res["nontrivial_distinct"] += 1 if L else 0
                        if len(res["samples"]) < 1 and L == 3:
                            res["samples"].append({"events": [list(e) for e in seq], "text": "\n".join(P.lines)[:600]})
    else:
        rnd = random.Random(spec["rseed"])
        texts = []
        for i in range(spec["n"]):
            L = rnd.randrange(3, 12)
            seq = []
            opened = 0
            for _ in range(L):
                e, nm = rnd.choice(alphabet)
                if e == "close" and not opened:
                    continue
                if e == "open":
                    opened += 1
                if e == "close":
                    opened -= 1
                seq.append((e, nm))
            r = rnd.random()
            param = rnd.choice(NAMES) if r < 0.45 else None
            kr = param is not None and rnd.random() < 0.12
            nested = param is not None and not kr and rnd.random() < 0.12
            P = one(rnd.choice(["typedef", "obj"]), seq, param, kr, nested, rnd.randrange(len(PSTYLES)) if param and not kr and not nested else 0)
            if P is None or P.novalidate:
                continue
            text = "\n".join(P.lines) + "\n"
            hs.add(int.from_bytes(hashlib.blake2b(text.encode(), digest_size=7).digest(), "big"))
            if not P.triggers or rnd.random() < 0.5:
                texts.append((text, P.std))
        # validate ref.scope against gcc on a sample: a rejection is an oracle fault (dropped + counted), never a violation
        sample = rnd.sample(texts, min(spec["ngcc"], len(texts)))
        bad = gcc_validate(sample)
        cnt["gcc_validated"] += len(sample)
        cnt["oracle_disagreements"] += len(bad)
        if bad:
            res["samples"].append({"oracle_disagreement": bad[0][0][:500], "gcc": bad[0][1]})
        if len(sample) and len(bad) > max(1, 0.02 * len(sample)):
            res.setdefault("inconclusive", []).append({"why": "gcc rejects more than 2% of the reference-model programs", "n": len(bad)})
    res["hashes"] = sorted(hs)
    res["kf_counts"] = dict(cnt["kf"])
    return res


def summarize(results, tier, seed):
    tot = {"programs": 0, "probes": 0, "with_triggers": 0, "gcc_validated": 0, "oracle_disagreements": 0}
    kf = {}
    for r in results:
        c = r.get("counters", {})
        for k in tot:
            tot[k] += c.get(k, 0)
        for k, v in c.get("kf", {}).items():
            kf[k] = kf.get(k, 0) + v
    return {"monitors": {"scope_probe_monitor": tot, "known_finding_cases": kf},
            "traces_validated_against_impl": tot["gcc_validated"],
            "exhaustive_parts": [f"all legal event sequences of length <= 3{'' if tier == 'quick' else ' (+ half of length 4)'} over {len(BLOCK_EVENTS)} event kinds x 2 names x 2 initial states"]}


def replay(rec):
    r = rec["case"]["recipe"]
    cnt = {"kf": {}}
    P, v = judge(r["u_kind"], [tuple(e) for e in r["events"]], r.get("param"), r.get("kr", False), r.get("nested", False), cnt, r.get("pstyle", 0))
    return [v] if v else []
