"""C07 - generated C re-parses to the same AST (parse . generate . parse = parse).

Metamorphic monitor on the real parser and generator: for every accepted text, both
generator configurations must produce text that parses to the same neutral form, and
generating again must reproduce the text character for character."""
import hashlib
import random

from .. import sut
from ..gen import cases, corpus, mutate
from ..nf import first_diff, nf

ID = "C07"
LEVEL = "exploration"
RULE = ("every accepted program of the model generators (random translation units, expression / declaration / statement "
        "batches), the repository corpus after preprocessing (incl. the three 127-275 KB benchmark files), the zoo, and "
        "accepted token-mutants of all of them x reduce_parentheses in {False, True}. Non-trivial: the AST has >= 3 nodes; "
        "distinct = distinct (source text, configuration).")
ASSUMPTIONS = ["neutral form compares every slot of every node except coord"]
SHARD_TIMEOUT = {"quick": 900, "thorough": 3600}


# constructs that only pycparser's own grammar accepts (GNU statement expressions in every position where the parser
# takes them, offsetof member designators, __int128, _Pragma operator ...): "every source text that parses" includes them
from ..gen import extras  # noqa: E402

EXTRAS = [t for _, t in extras.TEXTS]
# K12 (a declared name becomes visible only at the end of the whole declaration) also breaks the round trip, because the
# generator prints one declaration per declarator: (witness, neutralised twin)
KF_WITNESSES = [
    ("K12", "typedef int T, A[sizeof(T)];", "typedef int T; typedef int A[sizeof(T)];"),
    ("K12", "typedef char T; void f(void) { int T, y = sizeof(T); }", "typedef char T; void f(void) { int T; int y = sizeof(T); }"),
]


def plan(tier, seed):
    specs = []
    n = 14
    ngen = 200 if tier == "quick" else 2500
    nmut = 500 if tier == "quick" else 5000
    for i in range(n):
        specs.append({"name": f"gen-{i}", "mode": "gen", "n": ngen, "rseed": seed * 7919 + i, "nmut": nmut})
    specs.append({"name": "corpus", "mode": "corpus"})
    for i, _ in enumerate(corpus.big_files()):
        specs.append({"name": f"big-{i}", "mode": "big", "index": i})
    return specs


def roundtrip(text, filename="rt.c", counters=None):
    """Returns (status, violations). status: 'rejected' | 'ok'."""
    S = sut.load()
    try:
        ast1 = S.CParser().parse(text, filename)
    except Exception:  # noqa: BLE001 - not an accepted program
        return "rejected", []
    vs = []
    n1 = nf(ast1)
    for rp in (False, True):
        case = {"text": text, "reduce_parentheses": rp}
        try:
            g1 = S.CGenerator(reduce_parentheses=rp).visit(ast1)
        except RecursionError:
            continue
        except Exception as e:  # noqa: BLE001
            vs.append({"kind": "generator-raises", "sig": type(e).__name__, "case": case,
                       "detail": {"error": f"{type(e).__name__}: {str(e)[:200]}"}})
            continue
        try:
            ast2 = S.CParser().parse(g1, filename)
        except RecursionError:
            continue
        except Exception as e:  # noqa: BLE001
            vs.append({"kind": "generated-text-does-not-parse", "sig": str(e).split(": ", 1)[-1][:30], "case": case,
                       "detail": {"error": f"{type(e).__name__}: {str(e)[:200]}", "generated": _around(g1, str(e))}})
            continue
        n2 = nf(ast2)
        if n2 != n1:
            d = first_diff(n1, n2)
            vs.append({"kind": "second-AST-differs", "sig": (d or {}).get("path", "?")[-50:], "case": case,
                       "detail": {"first_difference": d, "generated": g1[:400]}})
            continue
        g2 = S.CGenerator(reduce_parentheses=rp).visit(ast2)
        if g2 != g1:
            i = next((k for k in range(min(len(g1), len(g2))) if g1[k] != g2[k]), min(len(g1), len(g2)))
            vs.append({"kind": "second-generation-differs", "sig": "text", "case": case,
                       "detail": {"at": i, "first": g1[max(0, i - 60):i + 60], "second": g2[max(0, i - 60):i + 60]}})
        if counters is not None:
            counters["round_trips"] += 1
            counters["generated_chars"] += len(g1)
    return "ok", vs


def _around(g, msg):
    import re
    m = re.search(r":(\d+):(\d+):", msg)
    if not m:
        return g[:300]
    ln = int(m.group(1))
    lines = g.split("\n")
    return "\n".join(lines[max(0, ln - 3):ln + 1])[:500]


def gen_recipes(rnd, n):
    out = []
    for i in range(n):
        r = rnd.random()
        sd = rnd.randrange(1 << 30)
        if r < 0.55:
            out.append({"k": "tu", "seed": sd, "style": "single"})
        elif r < 0.7:
            out.append({"k": "rexprs", "seed": sd, "count": 20, "depth": rnd.choice([2, 3, 4, 6]),
                        "render": rnd.choice(["min", "rand", "full"]),
                        "ctx": rnd.choice(list(cases.EXPR_CONTEXTS))})
        elif r < 0.82:
            out.append({"k": "rdecls", "seed": sd, "count": 8, "render": "min"})
        elif r < 0.88:
            ctx = rnd.choice(cases.DECL_CONTEXTS + cases.TN_CONTEXTS)
            nv = 16 if ctx == "param" else 8
            out.append({"k": "derivs", "ctx": ctx, "seqs": [[rnd.randrange(nv) for _ in range(rnd.randrange(0, 5))] for _ in range(12)],
                        "seed": sd, "style": "single"})
        else:
            out.append({"k": "rstmts", "seed": sd, "count": 2, "depth": rnd.choice([2, 3, 5])})
    return out


def run_shard(spec):
    res = {"evaluations": 0, "nontrivial_distinct": 0, "hashes": [], "violations": [], "samples": [],
           "counters": {"round_trips": 0, "generated_chars": 0, "accepted": 0, "rejected_mutants": 0}}
    hs = set()
    cnt = res["counters"]

    def one(text, origin):
        st, vs = roundtrip(text, counters=cnt)
        if st == "rejected":
            cnt["rejected_mutants"] += 1
            return
        cnt["accepted"] += 1
        res["evaluations"] += 2
        hs.add(int.from_bytes(hashlib.blake2b(text.encode("utf-8", "replace"), digest_size=7).digest(), "big"))
        for v in vs:
            v["case"]["origin"] = origin
        if vs and len(res["violations"]) < 60:
            res["violations"] += vs
        if len(res["samples"]) < 1:
            res["samples"].append({"origin": origin, "text": text[:200]})

    if spec["mode"] == "gen":
        rnd = random.Random(spec["rseed"])
        unit_pool = []
        for r in gen_recipes(rnd, spec["n"]):
            c = cases.build(r)
            one(c.text, {"recipe": r})
            if len(c.E.toks) < 400:
                unit_pool.append(([("#pragma " + t[len("#pragma"):].strip() + "\n") if i in c.E.directive else t
                                   for i, t in enumerate(c.E.toks)], r))
        zoo = [(mutate.units(t), {"zoo": n}) for n, t in corpus.zoo()] + [(mutate.units(t), {"extra": k}) for k, t in enumerate(EXTRAS)]
        for i in range(spec["nmut"]):
            us, org = rnd.choice(unit_pool) if (unit_pool and rnd.random() < 0.7) else rnd.choice(zoo)
            kind, mus = mutate.mutate(rnd, us, rnd.choice([1, 1, 2]))
            one(mutate.join(mus), {"mutant_of": org, "mutation": kind})
    elif spec["mode"] == "corpus":
        for name, text in corpus.zoo() + corpus.repo_files():
            one(text, {"file": name})
        for k, text in enumerate(EXTRAS):
            n0 = cnt["accepted"]
            one(text, {"extra": k})
            if cnt["accepted"] == n0:
                res.setdefault("inconclusive", []).append({"why": "an EXTRAS program is no longer accepted", "text": text[:80]})
        for kf, wit, twin in KF_WITNESSES:
            st, vs = roundtrip(wit, counters=cnt)
            st2, vs2 = roundtrip(twin, counters=cnt)
            res["evaluations"] += 4
            res["violations"] += vs2           # the neutralised twin must round-trip
            for v in vs:
                v["kf"] = kf
            res["violations"] += vs
    elif spec["mode"] == "big":
        name, text = corpus.big_files()[spec["index"]]
        one(text, {"file": name})
    res["hashes"] = sorted(hs)
    res["nontrivial_distinct"] = 0
    return res


def summarize(results, tier, seed):
    tot = {}
    for r in results:
        for k, v in r.get("counters", {}).items():
            tot[k] = tot.get(k, 0) + v
    return {"monitors": {"round_trip": tot}}


def replay(rec):
    return [v for v in roundtrip(rec["case"]["text"])[1] if v["case"]["reduce_parentheses"] == rec["case"]["reduce_parentheses"]]
