"""C08 - regenerated C means the same as the original to a C compiler.

Translation-validation monitor: each program accepted by gcc and by pycparser is
regenerated (both generator configurations) and compiled again; the assembly
(gcc -O0 -S, and -O1 -S) must be identical after normalising the file name.  A
disagreement is re-checked with clang (LLVM IR equality) to rule out a gcc quirk."""
import hashlib
import os
import random
import re
import shutil
import subprocess
import tempfile

from .. import sut
from ..gen import corpus, sem

ID = "C08"
LEVEL = "translation_validation"
RULE = ("type-correct C99/C11 programs from the semantic generator (all statement kinds, all operators, structs/unions/enums/"
        "bit-fields, function pointers, designated initializers, compound literals, qualifiers, storage classes, K&R "
        "definitions, tags shadowed in inner scopes; C11: _Alignas/_Alignof, _Atomic, _Static_assert, _Noreturn, "
        "_Thread_local, anonymous members, u8/u/U literals) and every corpus file gcc accepts after preprocessing; each is "
        "one validated translation x {reduce_parentheses False, True} x {-O0, -O1 on a subset}.")
ASSUMPTIONS = ["gcc 12 is the reference compiler; identical -S output (after normalising .file/.ident) means same code",
               "programs gcc rejects are oracle faults of the generator: dropped and counted, never violations"]
SHARD_TIMEOUT = {"quick": 900, "thorough": 5400}
MAX_WORKERS = 6

# Known-finding witnesses: (kf, witness, neutralised twin)
KF_WITNESSES = [
    ("K19", "enum { N = 1 }; int a[3] = { [N] = 2 };\nint f(void) { return a[1]; }\n",
     "enum { N = 1 }; int a[3] = { [N + 0] = 2 };\nint f(void) { return a[1]; }\n"),
    ("K20", "struct S { int a; } x, y;\nint f(void) { return x.a + y.a; }\n",
     "struct S { int a; } x; struct S y;\nint f(void) { return x.a + y.a; }\n"),
]


def plan(tier, seed):
    n = 6
    nprog = 7 if tier == "quick" else 340
    specs = [{"name": f"sem-{i}", "mode": "sem", "n": nprog, "rseed": seed * 1000 + i, "o1_every": 3 if tier == "quick" else 1} for i in range(n)]
    specs.append({"name": "corpus", "mode": "corpus", "big": tier == "thorough"})
    specs.append({"name": "kf", "mode": "kf"})
    return specs


def gcc_S(text, std, opt, workdir, name):
    src = os.path.join(workdir, name + ".c")
    out = os.path.join(workdir, name + ".s")
    with open(src, "w") as f:
        f.write(text)
    r = subprocess.run(["gcc", "-std=" + std, "-pedantic-errors", "-w", opt, "-S", "-o", out, src], capture_output=True, text=True)
    if r.returncode != 0:
        return None, r.stderr[:600]
    with open(out) as f:
        asm = f.read()
    asm = re.sub(r'^\s*\.file\s.*$', "", asm, flags=re.M)
    asm = re.sub(r'^\s*\.ident\s.*$', "", asm, flags=re.M)
    return asm, None


def clang_ir(text, std, workdir, name):
    if shutil.which("clang") is None:
        return None
    src = os.path.join(workdir, name + ".c")
    out = os.path.join(workdir, name + ".ll")
    with open(src, "w") as f:
        f.write(text)
    r = subprocess.run(["clang", "-std=" + std, "-w", "-O0", "-S", "-emit-llvm", "-o", out, src], capture_output=True, text=True)
    if r.returncode != 0:
        return None
    with open(out) as f:
        ir = f.read()
    ir = re.sub(r'^(; ModuleID|source_filename).*$', "", ir, flags=re.M)
    return ir


def first_asm_diff(a, b):
    la, lb = a.splitlines(), b.splitlines()
    lab = ""
    for i in range(min(len(la), len(lb))):
        if la[i].endswith(":") and not la[i].startswith("."):
            lab = la[i]
        if la[i] != lb[i]:
            return {"line": i, "in_symbol": lab, "original": la[max(0, i - 2):i + 3], "regenerated": lb[max(0, i - 2):i + 3]}
    return {"line": min(len(la), len(lb)), "in_symbol": lab, "original_lines": len(la), "regenerated_lines": len(lb)}


def validate(text, std, workdir, counters, do_o1=True, origin=None):
    """Returns (status, violations); status in {'validated', 'oracle-fault', 'rejected-by-pycparser'}."""
    S = sut.load()
    a0, err = gcc_S(text, std, "-O0", workdir, "orig")
    if a0 is None:
        counters["oracle_faults"] += 1
        return "oracle-fault", [], err
    try:
        ast = S.CParser().parse(text, "orig.c")
    except Exception:  # noqa: BLE001 - rejection of a gcc-accepted program is C01's business
        counters["rejected_by_pycparser"] += 1
        return "rejected-by-pycparser", [], None
    vs = []
    a1 = None
    for rp in (False, True):
        case = {"text": text, "std": std, "reduce_parentheses": rp, "origin": origin}
        try:
            g = S.CGenerator(reduce_parentheses=rp).visit(ast)
        except Exception as e:  # noqa: BLE001
            vs.append({"kind": "generator-raises", "sig": type(e).__name__, "case": case, "detail": {"error": f"{type(e).__name__}: {e}"}})
            continue
        for opt in (["-O0", "-O1"] if do_o1 else ["-O0"]):
            if opt == "-O1" and a1 is None:
                a1, _ = gcc_S(text, std, "-O1", workdir, "orig1")
                if a1 is None:
                    break
            ref = a0 if opt == "-O0" else a1
            b, err = gcc_S(g, std, opt, workdir, "regen")
            counters["compilations"] += 1
            bad = None
            if b is None:
                bad = {"kind": "regenerated-text-rejected-by-compiler", "sig": (err or "").split("error:")[-1].strip()[:40],
                       "detail": {"gcc": err, "generated_excerpt": _excerpt(g, err)}}
            elif b != ref:
                bad = {"kind": "regenerated-text-compiles-to-different-code", "sig": opt + ":" + first_asm_diff(ref, b).get("in_symbol", "")[:30],
                       "detail": {"opt": opt, "first_difference": first_asm_diff(ref, b)}}
            if bad:
                counters["disagreements"] += 1
                # rule out a gcc quirk: clang must also see a difference (or be unable to judge)
                i0, i1 = clang_ir(text, std, workdir, "c_orig"), clang_ir(g, std, workdir, "c_regen")
                if i0 is not None and i1 is not None and i0 == i1:
                    counters["gcc_only_disagreements"] += 1
                    bad["detail"]["clang"] = "clang sees identical IR: recorded as gcc-only disagreement, not a violation"
                    continue
                bad["detail"]["clang"] = "differs or rejected too" if i0 is not None else "clang could not compile the original"
                bad["case"] = dict(case, opt=opt)
                vs.append(bad)
                break
    counters["validated"] += 1
    return "validated", vs, None


def _excerpt(g, err):
    m = re.search(r":(\d+):\d+: error", err or "")
    if not m:
        return g[:300]
    ln = int(m.group(1))
    lines = g.split("\n")
    return "\n".join(lines[max(0, ln - 3):ln + 1])[:500]


def run_shard(spec):
    res = {"evaluations": 0, "nontrivial_distinct": 0, "hashes": [], "violations": [], "samples": [], "kf_counts": {},
           "counters": {"validated": 0, "oracle_faults": 0, "rejected_by_pycparser": 0, "compilations": 0, "disagreements": 0,
                        "gcc_only_disagreements": 0, "c99": 0, "c11": 0, "kf_not_reproduced": 0}}
    cnt = res["counters"]
    hs = set()
    work = tempfile.mkdtemp(prefix="vf-c08-")
    try:
        if spec["mode"] == "sem":
            for i in range(spec["n"]):
                c11 = (i + spec["rseed"]) % 2 == 1
                text, std = sem.generate(spec["rseed"] * 100 + i, c11=c11, nfun=7, ndecl=6)
                st, vs, err = validate(text, std, work, cnt, do_o1=(i % spec["o1_every"] == 0), origin={"sem_seed": spec["rseed"] * 100 + i, "c11": c11})
                if st == "validated":
                    res["evaluations"] += 1
                    cnt[std] += 1
                    hs.add(int.from_bytes(hashlib.blake2b(text.encode(), digest_size=7).digest(), "big"))
                    if len(res["samples"]) < 1:
                        res["samples"].append({"std": std, "program_excerpt": text[-700:]})
                elif st == "oracle-fault" and len(res["samples"]) < 2:
                    res["samples"].append({"oracle_fault": err})
                if vs and len(res["violations"]) < 20:
                    res["violations"] += vs
        elif spec["mode"] == "corpus":
            files = corpus.repo_files() + (corpus.big_files() if spec["big"] else [f for f in corpus.big_files() if "tccgen" in f[0]])
            for name, text in files:
                std = "gnu11" if "ppout" in name else "c11"
                st, vs, err = validate(text, std, work, cnt, do_o1=False, origin={"file": name})
                if st == "validated":
                    res["evaluations"] += 1
                    hs.add(int.from_bytes(hashlib.blake2b(text.encode("utf-8", "replace"), digest_size=7).digest(), "big"))
                    res["samples"].append({"corpus_file_validated": name})
                if vs and len(res["violations"]) < 20:
                    res["violations"] += vs
        else:
            for kf, wit, twin in KF_WITNESSES:
                st, vs, _ = validate(wit, "c99", work, cnt, do_o1=False, origin={"kf_witness": kf})
                st2, vs2, _ = validate(twin, "c99", work, cnt, do_o1=False, origin={"kf_twin": kf})
                res["evaluations"] += 2
                hs.add(hash(wit) & ((1 << 56) - 1))
                hs.add(hash(twin) & ((1 << 56) - 1))
                if vs2:
                    res["violations"] += vs2   # the neutralised twin must pass
                if vs:
                    for v in vs:
                        v["kf"] = kf
                    res["violations"] += vs[:1]
                else:
                    cnt["kf_not_reproduced"] += 1
    finally:
        shutil.rmtree(work, ignore_errors=True)
    res["hashes"] = sorted(hs)
    return res


def summarize(results, tier, seed):
    tot = {}
    for r in results:
        for k, v in r.get("counters", {}).items():
            tot[k] = tot.get(k, 0) + v
    out = {"monitors": {"translation_validation": tot}, "programs": tot.get("validated", 0),
           "disagreements_checked": tot.get("disagreements", 0), "oracle_disagreements": tot.get("oracle_faults", 0)}
    return out


def replay(rec):
    c = rec["case"]
    work = tempfile.mkdtemp(prefix="vf-c08-")
    cnt = {"validated": 0, "oracle_faults": 0, "rejected_by_pycparser": 0, "compilations": 0, "disagreements": 0, "gcc_only_disagreements": 0}
    try:
        st, vs, err = validate(c["text"], c["std"], work, cnt, do_o1=(c.get("opt") == "-O1"))
    finally:
        shutil.rmtree(work, ignore_errors=True)
    return vs
