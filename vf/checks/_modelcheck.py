"""Shared driver for the reference-model checks (C03, C05, ...): a shard is a list of
case recipes; each is built, parsed by the real parser and walked by the lock-step matcher."""
import hashlib

from .. import sut
from ..gen import cases, match


def eval_recipe(recipe, kind_rejected, kind_diff):
    S = sut.load()
    case = cases.build(recipe)
    vs = []
    try:
        ast = S.CParser().parse(case.text, recipe.get("filename", "f.c"))
    except Exception as e:  # noqa: BLE001
        vs.append({"kind": kind_rejected, "sig": type(e).__name__ + ":" + str(e).split(": ", 1)[-1][:30],
                   "case": {"recipe": recipe}, "detail": {"error": f"{type(e).__name__}: {e}", "text": case.text[:1500]}})
        return case, None, None, vs
    M = match.Matcher(S)
    M.tu(ast, case.model)
    if M.bad:
        vs.append({"kind": kind_diff, "sig": M.bad[0][0].split("[")[0][-40:] + "|" + M.bad[0][1][:20],
                   "case": {"recipe": recipe}, "detail": {"mismatches": M.bad[:3], "text": case.text[:1500]}})
    return case, ast, M, vs


def run_recipes(spec, kind_rejected, kind_diff, count_of):
    res = {"evaluations": 0, "nontrivial_distinct": 0, "hashes": [], "violations": [], "samples": [],
           "counters": {"translation_units": 0, "paired_nodes": 0, "by_recipe_kind": {}, "ast_classes": {}},
           "kf_counts": {}}
    hs = set()
    for r in spec["recipes"]:
        case, ast, M, vs = eval_recipe(r, kind_rejected, kind_diff)
        n = count_of(r, case)
        res["evaluations"] += n
        c = res["counters"]
        c["translation_units"] += 1
        key = r["k"] + (":" + r["ctx"] if "ctx" in r else "")
        c["by_recipe_kind"][key] = c["by_recipe_kind"].get(key, 0) + n
        if r["k"] in ("exprs", "derivs", "stmts", "stmts3"):
            res["nontrivial_distinct"] += n
        else:
            hs.add(int.from_bytes(hashlib.blake2b(case.text.encode("utf-8", "replace"), digest_size=7).digest(), "big"))
        if M is not None:
            c["paired_nodes"] += len(M.pairs)
            for k, v in M.stats.items():
                c["ast_classes"][k] = c["ast_classes"].get(k, 0) + v
            if len(res["samples"]) < 1:
                res["samples"].append({"recipe": {k: v for k, v in r.items() if k != "seqs"}, "text": case.text[:200]})
        if M is not None:
            for k, v in M.kf.items():
                res["kf_counts"][k] = res["kf_counts"].get(k, 0) + v
        if vs and len(res["violations"]) < 40:
            res["violations"] += vs
    res["hashes"] = sorted(hs)
    return res


def merge_counters(results):
    tot = {"translation_units": 0, "paired_nodes": 0}
    kinds = {}
    classes = {}
    for r in results:
        c = r.get("counters", {})
        for k in tot:
            tot[k] += c.get(k, 0)
        for k, v in c.get("by_recipe_kind", {}).items():
            kinds[k] = kinds.get(k, 0) + v
        for k, v in c.get("ast_classes", {}).items():
            classes[k] = classes.get(k, 0) + v
    return {"lockstep_matcher": tot, "cases_by_kind": kinds, "ast_nodes_paired_by_class": classes}
