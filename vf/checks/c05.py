"""C05 - statement ASTs mirror C's statement nesting and source order.

Reference-model monitor: expected nesting is computed from the model by the rules the
property states (nearest-if else, single following statement as body, pragma-prefixed
sub-statement wrapped, switch-block regrouping under the nearest preceding label)."""
from ..gen import cases
from . import _modelcheck as mc

ID = "C05"
LEVEL = "exploration"
RULE = ("bounded-exhaustive: every statement tree of nesting depth <= 2 over the reduced alphabet {expr, empty, break, "
        "declaration, #pragma, static assertion, block(1|2 items), if, if-else, while, do, for, for-with-declaration, "
        "switch, case, default, label, pragma-prefixed sub-statement} (thorough: plus every unary construct wrapped "
        "around every depth-2 tree = depth 3); random trees to depth 6 over the full alphabet (goto, continue, return, "
        "_Pragma, 3 for-init forms, random expressions and declarations) and random whole translation units. "
        "Non-trivial: tree has >= 1 compound construct; distinct = distinct trees / source texts.")
ASSUMPTIONS = ["block-scope '_Static_assert(..);' yields StaticAssert followed by EmptyStatement (pinned by the test-suite)",
               "a #pragma before a block item is a separate item; before a sub-statement it is wrapped with it in a Compound"]
SHARD_TIMEOUT = {"quick": 600, "thorough": 3000}
BATCH = 150


def plan(tier, seed):
    recipes = []
    n2 = len(cases.stmt_list(2))
    for s in range(0, n2, BATCH):
        recipes.append({"k": "stmts", "depth": 2, "start": s, "count": BATCH, "seed": seed + s,
                        "style": ["single", "lines", "random"][(s // BATCH) % 3]})
    if tier == "thorough":
        for outer in range(cases.N_UNARY_STMT):
            for s in range(0, n2, 400):
                recipes.append({"k": "stmts3", "outer": outer, "start": s, "count": 400, "seed": seed + s})
    nrand = 900 if tier == "quick" else 6000
    for i in range(nrand):
        recipes.append({"k": "rstmts", "seed": seed * 100003 + i, "count": 3, "depth": 2 + i % 5,
                        "render": ["min", "rand"][i % 2], "style": ["single", "random", "minimal", "lines", "marked"][i % 5]})
    for i in range(nrand // 2):
        recipes.append({"k": "tu", "seed": seed * 100019 + 500000 + i})
    recipes.append({"k": "k31", "seed": seed})
    nsh = 16
    return [{"name": f"stmt-{i}", "recipes": recipes[i::nsh]} for i in range(nsh)]


def _count(r, case):
    if r["k"] in ("stmts", "stmts3"):
        return len(case.model["items"][0]["body"]["items"])
    if r["k"] == "rstmts":
        return r["count"]
    if r["k"] == "k31":
        return 4
    return 1


def run_shard(spec):
    return mc.run_recipes(spec, "rejected-valid-function-body", "statement-tree-differs-from-C-nesting", _count)


def summarize(results, tier, seed):
    return {"monitors": mc.merge_counters(results),
            "exhaustive_parts": ["all statement trees of depth <= 2 over the reduced alphabet"] +
                                (["every unary construct x every depth-2 tree"] if tier == "thorough" else [])}


def replay(rec):
    return mc.eval_recipe(rec["case"]["recipe"], "rejected-valid-function-body", "statement-tree-differs-from-C-nesting")[3]
