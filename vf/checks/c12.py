"""C12 - a parser's result depends only on (text, filename), never on its history.

History monitor: every call on a used instance is compared with the outcome a
brand-new instance gives for the same (text, filename)."""
import hashlib
import random

from .. import sut
from ..gen import corpus, mutate
from ..nf import first_diff, nf

ID = "C12"
LEVEL = "exploration"
RULE = ("pool of residue-leaving inputs (valid programs with clashing typedef/object names, every token-level "
        "truncation point of them, illegal-character injections, unterminated constructs, linemarkers); all ordered "
        "pairs of the pool on one CParser instance (exhaustive for the pool), random histories of 3-40 calls, an "
        "alternating stress history; the same for CLexer.input() reuse (incl. abandoning a stream mid-way) and "
        "CGenerator reuse. Non-trivial: the history has >= 2 calls and the compared call follows a different input; "
        "distinct = distinct (history, compared-call) pairs.")
ASSUMPTIONS = ["fresh-instance outcome computed in the same process is the reference",
               "sharing is checked on Node objects, Coord objects and lists that contain Nodes"]
SHARD_TIMEOUT = {"quick": 600, "thorough": 3000}

CLASH = [
    "typedef int T; T x; void f(void){ T * y; }",
    "int T; int x; void g(void){ T * x; }",
    "typedef char U; typedef U V; V v; struct S { U T; };",
    "int U(void); int V = 3; void h(int T){ T * V; U(); }",
    "typedef int T; void f(void){ { int T; T = 1; } T t; }",
    "void k(void){ typedef long T; T a; { typedef char U; U b; } }",
    "enum { T = 1, U, V }; int a[T + U * V];",
    "typedef struct T T; struct T { T *next; int U; } V;",
    "typedef int T;\n# 10 \"other.h\"\nT a;\n# 3 \"main.c\"\nvoid f(T T){ T = 2; }",
    "void f(void){\n#pragma omp parallel\n for(;;){ }\n}\n#pragma tail",
    "typedef int T, U, V; T f(U u, V v) { for (T i = 0; i < u; i++) { U T; T = v; } return (T)u; }",
    "int x = 'a' + L'b' + sizeof(int); char *s = \"str\" \"ing\"; double d = 1.5e3;",
]
# texts whose FIRST token is an identifier that another text of the pool declares as a typedef (or not)
FIRST_ID = ["T x;", "T * x;", "T (x);", "U(a) { return a; }", "V;", "T", "U u = 1;", "x = T;", "T: ;", "V v, *w;"]
TAILS = ["@", "`", "\\", "\"unterminated", "'", "/* c", "// c", "#define X 1", "# 7 \"z.h\"", "#pragma", "#pragma p q",
         "08", "''", "{", "{ {", "}", "(", "struct Z {", "void q(void) { int T;", "typedef int", "int a[] = { [", "0x"]


def build_pool(tier, seed):
    rnd = random.Random(seed * 7919 + 1)
    bases = list(CLASH)
    zoo = [t for _, t in corpus.zoo()]
    bases += rnd.sample(zoo, 10 if tier == "quick" else 40)
    pool = []
    for b in bases + FIRST_ID:
        pool.append(b)
    target = 110 if tier == "quick" else 220
    # truncations and injections
    cands = []
    for b in bases:
        us = mutate.units(b)
        for i in range(1, len(us)):
            cands.append(mutate.join(us[:i]))
        for i in range(0, len(us) + 1):
            for t in (rnd.sample(TAILS, 2)):
                cands.append(mutate.join(us[:i] + [t] + us[i:]))
                cands.append(mutate.join(us[:i]) + " " + t)
    for t in TAILS:
        cands.append(t)
    rnd.shuffle(cands)
    seen = set(pool)
    for c in cands:
        if len(pool) >= target:
            break
        if c not in seen:
            seen.add(c)
            pool.append(c)
    return pool


def plan(tier, seed):
    specs = []
    n = 16
    for i in range(n):
        specs.append({"name": f"pairs-{i}", "mode": "pairs", "shard": i, "nshards": n})
    nh = 150 if tier == "quick" else 700
    for i in range(8):
        specs.append({"name": f"hist-{i}", "mode": "hist", "n": nh, "rseed": seed * 100 + i})
    specs.append({"name": "lexer", "mode": "lexer", "rseed": seed, "n": 300 if tier == "quick" else 6000})
    specs.append({"name": "generator", "mode": "gen", "rseed": seed, "n": 300 if tier == "quick" else 6000})
    specs.append({"name": "stress", "mode": "stress", "n": 1500 if tier == "quick" else 6000})
    specs.append({"name": "abandon", "mode": "abandon", "n": 700 if tier == "quick" else 5000, "rseed": seed})
    return specs


# nesting constructs: (opening text, innermost text, closing text); a parse abandoned d levels inside one of them must
# leave nothing behind (depth counters, scope stacks, token buffers) that a later deep but valid input can notice
NESTS = [
    ("int v = ", "(", "1", ")", ";"),
    ("void f(void) ", "{", "", "}", ""),
    ("void f(void) { x = ", "(", "1", ")", "; }"),
    ("int a[] = ", "{", "1", "}", ";"),
    ("int v = ", "f(", "1", ")", ";"),
    ("int v = ", "a[", "0", "]", ";"),
    ("int v = ", "-(", "1", ")", ";"),
    ("int v = ", "(int)(", "1", ")", ";"),
    ("int v = ", "sizeof(", "1", ")", ";"),
    ("int ", "(*", "p", ")", ";"),
    ("struct s0 { int a; ", "struct { int b; ", "", "} ;", " };"),
    ("void f(void) { ", "if (c) { ", ";", " }", " }"),
    ("void f(void) { ", "for (;;) while (c) { ", ";", " }", " }"),
    ("void f(void) { ", "switch (c) { case 1: ", "break;", " }", " }"),
    ("int v = ", "c ? (", "1", ") : 2", ";"),
    ("void f(int (*cb)", "(int (*x)", "(void)", ")", ");"),
    ("void f(void) { ", "{ typedef int T; { T t; ", "", "} }", " }"),
]
BREAKERS = [" + ; ", " @ ", " ) ", " } ", " ] ", " int ", " \"x ", " 08 ", ""]


def nest_text(ni, depth, breaker=None):
    pre, op, mid, cl, post = NESTS[ni]
    if breaker is None:
        return pre + op * depth + mid + cl * depth + post
    return pre + op * depth + mid + breaker      # abandoned at the innermost point


def _outcome(parser, text, fname):
    S = sut.load()
    try:
        ast = parser.parse(text, fname)
        return ("ok", ast)
    except S.ParseError as e:
        return ("ParseError", str(e))
    except RecursionError:
        return ("RecursionError", "")
    except Exception as e:  # noqa: BLE001
        return (type(e).__name__, str(e))


def _key(o):
    if o[0] == "ok":
        return ("ok", hashlib.blake2b(repr(nf(o[1], coords=True)).encode(), digest_size=12).hexdigest())
    return o


def _shared(a, b):
    """Node/Coord/list-of-nodes objects shared by two ASTs."""
    from ..nf import object_ids
    S = sut.load()
    ia = object_ids(a)
    ib = object_ids(b)
    out = []
    for k in ia.keys() & ib.keys():
        o = ia[k]
        if isinstance(o, list) and not any(isinstance(x, S.Node) for x in o):
            continue
        out.append(type(o).__name__)
    return out


def eval_history(history, fresh_keys=None):
    """history: list of [text, filename].  Runs it on one instance; compares each
    call with a fresh instance.  Returns list of violations."""
    S = sut.load()
    p = S.CParser()
    vs = []
    prev_ast = None
    for i, (text, fname) in enumerate(history):
        o = _outcome(p, text, fname)
        k = _key(o)
        fk = fresh_keys.get((text, fname)) if fresh_keys is not None else None
        fo = None
        if fk is None:
            fo = _outcome(S.CParser(), text, fname)
            fk = _key(fo)
            if fresh_keys is not None:
                fresh_keys[(text, fname)] = fk
        if k != fk:
            if fo is None:
                fo = _outcome(S.CParser(), text, fname)
            detail = {"call_index": i, "used": k if o[0] != "ok" else "ok", "fresh": fk if fo[0] != "ok" else "ok"}
            if o[0] == "ok" and fo[0] == "ok":
                detail["first_difference"] = first_diff(nf(fo[1], True), nf(o[1], True))
            vs.append({"kind": "history-dependent-result", "sig": f"{fk[0]}->{k[0]}",
                       "case": {"mode": "history", "history": history[: i + 1]}, "detail": detail})
            break
        if o[0] == "ok":
            if prev_ast is not None:
                sh = _shared(prev_ast, o[1])
                if sh:
                    vs.append({"kind": "shared-objects", "sig": ",".join(sorted(set(sh)))[:60],
                               "case": {"mode": "history", "history": history[: i + 1]},
                               "detail": {"shared": sh[:10], "call_index": i}})
                    break
            prev_ast = o[1]
    return vs


def _lex_all(lexer, text, fname, limit=None):
    errs = []
    events = []
    lexer.error_func = lambda m, l, c: errs.append((m, l, c))
    lexer.input(text, fname)
    n = 0
    while True:
        t = lexer.token()
        if t is None:
            break
        events.append((t.type, t.value, t.lineno, t.column, lexer.filename))
        n += 1
        if limit is not None and n >= limit:
            break
        if n > len(text) + 5:
            break
    return events, errs


def eval_lexer_history(history):
    """history: list of [text, filename, consume_limit|None]."""
    S = sut.load()
    braces = []

    def mk():
        return S.CLexer(lambda m, l, c: None, lambda: braces.append("{"), lambda: braces.append("}"),
                        lambda n: n in ("T", "U"))
    used = mk()
    vs = []
    for i, (text, fname, limit) in enumerate(history):
        got = _lex_all(used, text, fname, limit)
        want = _lex_all(mk(), text, fname, limit)
        if got != want:
            j = 0
            while j < min(len(got[0]), len(want[0])) and got[0][j] == want[0][j]:
                j += 1
            vs.append({"kind": "lexer-history-dependent", "sig": "lexer", "case": {"mode": "lexer", "history": history[: i + 1]},
                       "detail": {"call_index": i, "first_differing_token": j,
                                  "used": (got[0][j:j + 2], got[1][:2]), "fresh": (want[0][j:j + 2], want[1][:2])}})
            break
    return vs


def eval_gen_history(texts, rp):
    S = sut.load()
    g = S.CGenerator(reduce_parentheses=rp)
    vs = []
    for i, text in enumerate(texts):
        ast = S.CParser().parse(text, "g.c")
        try:
            want = S.CGenerator(reduce_parentheses=rp).visit(ast)
        except Exception:  # noqa: BLE001 - generator failures are C07's business
            continue
        got = g.visit(ast)
        if got != want or g.indent_level != 0:
            vs.append({"kind": "generator-history-dependent", "sig": "gen", "case": {"mode": "gen", "texts": texts[: i + 1], "rp": rp},
                       "detail": {"call_index": i, "indent_level_after": g.indent_level,
                                  "used": got[:300], "fresh": want[:300]}})
            break
        # visits that start below FileAST (one external declaration, one function body item) and a repeated visit of the
        # whole tree: each must equal what a brand-new generator prints for that node
        subs = list(ast.ext) + list(reversed(ast.ext))
        for e in ast.ext:
            body = getattr(e, "body", None)
            if body is not None and getattr(body, "block_items", None):
                subs += body.block_items[:6]
        subs.append(ast)
        for k, node in enumerate(subs[:40]):
            try:
                w = S.CGenerator(reduce_parentheses=rp).visit(node)
            except Exception:  # noqa: BLE001
                continue
            try:
                u = g.visit(node)
            except Exception as e:  # noqa: BLE001
                u = f"<raised {type(e).__name__}: {e}>"
            if u != w:
                vs.append({"kind": "generator-history-dependent", "sig": "gen-subnode:" + type(node).__name__,
                           "case": {"mode": "gen", "texts": texts[: i + 1], "rp": rp},
                           "detail": {"call_index": i, "sub_visit": k, "node": type(node).__name__, "used": u[:300], "fresh": w[:300]}})
                return vs
    return vs


def run_shard(spec):
    S = sut.load()
    tier, seed = spec["tier"], spec["seed"]
    res = {"evaluations": 0, "nontrivial_distinct": 0, "hashes": [], "violations": [], "samples": [],
           "counters": {"calls": 0, "ok": 0, "errors": 0, "sharing_checks": 0}}
    cnt = res["counters"]
    pool = build_pool(tier, seed)
    fnames = ["a.c", "b.c"]
    fresh = {}
    if spec["mode"] == "pairs":
        for ai in range(spec["shard"], len(pool), spec["nshards"]):
            a = pool[ai]
            for bi, b in enumerate(pool):
                hist = [[a, "a.c"], [b, "b.c"]]
                vs = eval_history(hist, fresh)
                res["evaluations"] += 2
                res["nontrivial_distinct"] += 1
                cnt["calls"] += 2
                if vs and len(res["violations"]) < 50:
                    res["violations"].extend(vs)
            if len(res["samples"]) < 1:
                res["samples"].append({"history": [[a[:120], "a.c"], [pool[(ai + 1) % len(pool)][:120], "b.c"]]})
        cnt["pool"] = len(pool)
        cnt["pool_ok"] = sum(1 for (t, f), k in fresh.items() if k[0] == "ok")
    elif spec["mode"] == "hist":
        rnd = random.Random(spec["rseed"])
        hs = set()
        for i in range(spec["n"]):
            L = rnd.randrange(3, 41)
            hist = [[rnd.choice(pool), rnd.choice(fnames)] for _ in range(L)]
            vs = eval_history(hist, fresh)
            res["evaluations"] += L
            cnt["calls"] += L
            hs.add(hash(repr(hist)) & ((1 << 56) - 1))
            if vs and len(res["violations"]) < 50:
                res["violations"].extend(vs)
        res["hashes"] = sorted(hs)
    elif spec["mode"] == "stress":
        hist = []
        valid = [p for p in pool[:12]]
        broken = pool[12:40]
        for i in range(spec["n"]):
            hist.append([broken[i % len(broken)] if i % 2 else valid[(i // 2) % len(valid)], fnames[i % 2]])
        vs = eval_history(hist, fresh)
        res["evaluations"] += len(hist)
        res["nontrivial_distinct"] += len(hist) - 1
        res["violations"].extend(vs)
        res["samples"].append({"stress_history_calls": len(hist)})
    elif spec["mode"] == "abandon":
        rnd = random.Random(spec["rseed"] + 77)
        hist = []
        leaked = 0
        for i in range(spec["n"]):
            ni = rnd.randrange(len(NESTS))
            if i % 2 == 0:
                d = rnd.choice([1, 2, 4, 7, 12, 20, 35])
                leaked += d
                hist.append([nest_text(ni, d, rnd.choice(BREAKERS)), fnames[i % 3 == 0]])
            else:
                hist.append([nest_text(ni, rnd.choice([1, 3, 10, 30, 60, 90])), fnames[i % 3 == 0]])
            if i % 40 == 7:
                # a parse that ends with an exception that is not a ParseError (RecursionError from a nest deeper than the
                # interpreter allows), after typedefs were declared and scopes opened; then small programs that notice leftovers
                hist.append(["typedef int T; typedef char U;\nint f(void) { { return " + "(" * 3000 + "1" + ")" * 3000 + "; } }\n", "deep.c"])
                hist.append([rnd.choice(["int T;", "int U = 1; int T = 2;", "T x;", "typedef long T; T y;", "void g(void) { T * U; }"]), "after.c"])
                cnt["non_parse_error_failures"] = cnt.get("non_parse_error_failures", 0) + 1
        # several instances, each with a long life: one history per 100 calls plus the whole history on one instance
        for h in [hist] + [hist[k:k + 100] for k in range(0, len(hist), 100)]:
            vs = eval_history(h, fresh)
            res["evaluations"] += len(h)
            res["nontrivial_distinct"] += len(h) - 1
            cnt["calls"] += len(h)
            if vs and len(res["violations"]) < 50:
                res["violations"].extend(vs)
        cnt["abandoned_nesting_levels"] = leaked
        cnt["abandon_valid_ok"] = sum(1 for (t, f), k in fresh.items() if k[0] == "ok")
        cnt["abandon_failed"] = sum(1 for (t, f), k in fresh.items() if k[0] != "ok")
        res["samples"].append({"abandoned": hist[0][0][:100], "then": hist[1][0][:100]})
    elif spec["mode"] == "lexer":
        rnd = random.Random(spec["rseed"] + 5)
        hs = set()
        for i in range(spec["n"]):
            L = rnd.randrange(2, 8)
            hist = []
            for _ in range(L):
                t = rnd.choice(pool)
                lim = None if rnd.random() < 0.5 else rnd.randrange(1, 12)
                hist.append([t, rnd.choice(fnames), lim])
            vs = eval_lexer_history(hist)
            res["evaluations"] += L
            hs.add(hash(repr(hist)) & ((1 << 56) - 1))
            if vs and len(res["violations"]) < 50:
                res["violations"].extend(vs)
            if i == 0:
                res["samples"].append({"lexer_history": [[h[0][:60], h[1], h[2]] for h in hist]})
        res["hashes"] = sorted(hs)
    elif spec["mode"] == "gen":
        rnd = random.Random(spec["rseed"] + 9)
        ok = []
        from ..gen import extras
        tagged = ["struct S { int x; } a, *b; enum E { P, Q } e1, e2[2]; void f(void) { enum F { R } r; struct S s2; union U { int i; } u1, u2; }",
                  "typedef struct N { struct N *next; } N, *NP; struct N head; int g(struct { int a; } *p) { return sizeof(struct M { int b; }); }"]
        for t in pool + tagged + [z for _, z in corpus.zoo() + extras.TEXTS]:
            try:
                S.CParser().parse(t, "g.c")
                ok.append(t)
            except Exception:  # noqa: BLE001
                pass
        hs = set()
        for i in range(spec["n"]):
            L = rnd.randrange(2, 7)
            texts = [rnd.choice(ok) for _ in range(L)]
            rp = bool(i % 2)
            vs = eval_gen_history(texts, rp)
            res["evaluations"] += L
            hs.add(hash(repr((texts, rp))) & ((1 << 56) - 1))
            if vs and len(res["violations"]) < 50:
                res["violations"].extend(vs)
        res["hashes"] = sorted(hs)
        res["samples"].append({"generator_pool": len(ok)})
    return res


def summarize(results, tier, seed):
    tot = {}
    for r in results:
        for k, v in r.get("counters", {}).items():
            tot[k] = max(tot.get(k, 0), v) if k.startswith("pool") else tot.get(k, 0) + v
    return {"monitors": {"history": tot}, "exhaustive_parts": ["all ordered pairs of the pool on one instance"]}


def replay(rec):
    c = rec["case"]
    if c["mode"] == "history":
        return eval_history(c["history"])
    if c["mode"] == "lexer":
        return eval_lexer_history(c["history"])
    if c["mode"] == "gen":
        return eval_gen_history(c["texts"], c["rp"])
    return []
