"""C02 - expression ASTs follow C precedence, associativity and operator binding.

Reference-model monitor: each generated expression is rendered from a model tree
with parentheses placed by my transcription of the C99 6.5 grammar levels; the
AST returned by the real parser is walked in lock-step with the model."""
import hashlib
import random

from .. import sut
from ..gen import cases, gens, match

ID = "C02"
LEVEL = "exploration"
RULE = ("bounded-exhaustive: every expression tree with <= 2 operator nodes (quick) / <= 3 (thorough) over all C "
        "operators, rendered with minimal, random-redundant and full parenthesisation; every <= 2-operator tree "
        "(quick: a rotating third of them per context) in 22 expression contexts; random trees to depth 7 with all "
        "constant kinds as leaves. Non-trivial: the tree has >= 1 operator node and was accepted; distinct = "
        "distinct (tree, rendering, context).")
ASSUMPTIONS = ["the C99 6.5 grammar levels transcribed in vf/gen/model.py (validated against gcc/clang on semantic programs in C08/C01)",
               "Constant.type strings as documented by pycparser ('unsigned long int', 'double', 'char', 'string')"]
SHARD_TIMEOUT = {"quick": 600, "thorough": 3000}
BATCH = 100


def plan(tier, seed):
    specs = []
    n1 = len(cases.enum_list(1))
    n2 = len(cases.enum_list(2))
    recipes = []
    for mode in ("min", "rand", "full"):
        recipes.append({"k": "exprs", "nops": 1, "start": 0, "count": n1, "render": mode, "ctx": "stmt", "seed": seed})
        for s in range(0, n2, BATCH):
            recipes.append({"k": "exprs", "nops": 2, "start": s, "count": BATCH, "render": mode, "ctx": "stmt", "seed": seed + s})
    ctxs = [c for c in cases.EXPR_CONTEXTS if c != "stmt"]
    for ci, ctx in enumerate(ctxs):
        recipes.append({"k": "exprs", "nops": 1, "start": 0, "count": n1, "render": "min", "ctx": ctx, "seed": seed})
        for bi, s in enumerate(range(0, n2, BATCH)):
            if tier == "quick" and (bi + ci + seed) % 2:
                continue
            recipes.append({"k": "exprs", "nops": 2, "start": s, "count": BATCH, "render": "min" if (bi + ci) % 2 else "rand",
                            "ctx": ctx, "seed": seed + s})
    nrand = 400 if tier == "quick" else 3000
    for i in range(nrand):
        recipes.append({"k": "rexprs", "seed": seed * 100003 + i, "count": 60, "depth": 2 + i % 6,
                        "render": ["min", "rand", "full"][i % 3], "ctx": ctxs[i % len(ctxs)] if i % 4 == 0 else "stmt",
                        "style": ["single", "random", "minimal", "lines"][i % 4]})
    if tier == "thorough":
        n3 = len(cases.enum_list(3))
        for s in range(0, n3, 400):
            recipes.append({"k": "exprs", "nops": 3, "start": s, "count": 400, "render": ["min", "rand", "full"][(s // 400) % 3],
                            "ctx": "stmt", "seed": seed + s})
    nsh = 16
    for i in range(nsh):
        specs.append({"name": f"expr-{i}", "recipes": recipes[i::nsh]})
    return specs


def eval_recipe(recipe):
    """Returns (n_expressions, n_nontrivial, violations, sample)."""
    S = sut.load()
    case = cases.build(recipe)
    vs = []
    try:
        ast = S.CParser().parse(case.text, "f.c")
    except Exception as e:  # noqa: BLE001
        # a rejected batch: find the culprit by parsing expressions one by one (C01 owns rejection, but an
        # expression whose tree cannot be observed is reported here too: the oracle needs the tree)
        vs.append({"kind": "rejected-valid-expression", "sig": type(e).__name__ + ":" + str(e).split(": ", 1)[-1][:30],
                   "case": {"recipe": recipe}, "detail": {"error": f"{type(e).__name__}: {e}", "text": case.text[:1500]}})
        return recipe.get("count", 0), 0, vs, None
    M = match.Matcher(S)
    M.tu(ast, case.model)
    if M.bad:
        vs.append({"kind": "tree-differs-from-C-grammar", "sig": M.bad[0][0].split("[")[0][-40:] + "|" + M.bad[0][1][:20],
                   "case": {"recipe": recipe},
                   "detail": {"mismatches": M.bad[:3], "text": _excerpt(case, M.bad[0][0])}})
    n = recipe.get("count", 1)
    return n, n, vs, {"text": case.text[:160], "paired_nodes": len(M.pairs)}


def _excerpt(case, path):
    t = case.text
    return t if len(t) < 1200 else t[:1200] + "..."


def run_shard(spec):
    res = {"evaluations": 0, "nontrivial_distinct": 0, "hashes": [], "violations": [], "samples": [],
           "counters": {"expressions": 0, "translation_units": 0, "paired_nodes": 0, "contexts": {}}}
    hs = set()
    for r in spec["recipes"]:
        n, nt, vs, sample = eval_recipe(r)
        res["evaluations"] += n
        res["counters"]["translation_units"] += 1
        res["counters"]["contexts"][r.get("ctx", "stmt")] = res["counters"]["contexts"].get(r.get("ctx", "stmt"), 0) + n
        if r["k"] == "exprs":
            res["nontrivial_distinct"] += nt
        else:
            hs.add(int.from_bytes(hashlib.blake2b(repr(sorted(r.items())).encode(), digest_size=7).digest(), "big"))
            res["nontrivial_distinct"] += max(0, nt - 1)
        if sample:
            res["counters"]["paired_nodes"] += sample["paired_nodes"]
            if len(res["samples"]) < 1:
                res["samples"].append(sample)
        if vs and len(res["violations"]) < 40:
            res["violations"] += vs
    res["hashes"] = sorted(hs)
    return res


def summarize(results, tier, seed):
    ctx = {}
    tot = {"expressions": 0, "translation_units": 0, "paired_nodes": 0}
    for r in results:
        c = r.get("counters", {})
        for k in tot:
            tot[k] += c.get(k, 0)
        for k, v in c.get("contexts", {}).items():
            ctx[k] = ctx.get(k, 0) + v
    return {"monitors": {"lockstep_matcher": tot, "expressions_per_context": ctx},
            "exhaustive_parts": [f"all trees with <= {2 if tier == 'quick' else 3} operator nodes x 3 renderings (statement context)",
                                 "all 1-operator trees in every context" + ("; all 2-operator trees in every context" if tier == "thorough" else "")],
            "operator_trees": {"1": len(cases.enum_list(1)), "2": len(cases.enum_list(2))}}


def replay(rec):
    return eval_recipe(rec["case"]["recipe"])[2]
