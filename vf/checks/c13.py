"""C13 - separate parser/generator instances never influence each other.

Deterministic schedulers drive several instances in an interleaved fashion and a
determinism oracle compares each instance's result with the result the same input gives
alone *in a fresh interpreter* (so that a module-level cache cannot pollute the oracle):
 (a) token granularity: a scheduling lexer injected through the public lexer= parameter
     blocks every token() call until the schedule grants the step (all interleavings of two
     short parses, random schedules for 2-4 longer ones);
 (b) call granularity: a sys.monitoring PY_START callback blocks the same way inside any
     pycparser function (parser, generator and visitors);
 (c) free-running threads with a 1 microsecond switch interval;
 (d) plain sequential alternation of instances in one thread."""
import hashlib
import itertools
import json
import os
import random
import subprocess
import sys
import threading

from .. import sut
from ..nf import nf

ID = "C13"
LEVEL = "exploration"
RULE = ("programs with clashing names (one declares 'typedef int T;', the other uses T as a variable; different file names, "
        "linemarkers, brace depths, pragmas); (a) every interleaving of the token fetches of two parses with <= 6 (quick) / "
        "<= 7 (thorough) fetches each, and random token-level schedules of 2-4 longer parses; (b) random call-level "
        "schedules over parse + generate + NodeVisitor; (c) free-running threads, switch interval 1e-6; (d) sequential "
        "alternation. Each result (with-coordinates neutral form, both generated texts, visitor counts, or exception) is "
        "compared with the solo result from a fresh interpreter. Non-trivial: the executed schedule switched workers >= 2 "
        "times; distinct = distinct executed schedules (hash of the recorded step sequence).")
ASSUMPTIONS = ["solo results come from one fresh interpreter per program", "free-running thread runs are not reproducible; "
               "the deterministic schedulers carry the verdict-bearing evidence"]
SHARD_TIMEOUT = {"quick": 900, "thorough": 3600}

SHORT = [  # (text, filename) with few tokens, clashing on T
    ("typedef int T; T x;", "a.c"), ("int T; T * x;", "b.c"), ("T (x);", "c.c"), ("typedef int T; T * x;", "d.c"),
    ("int T = 1;", "e.c"), ("enum { T }; T;", "f.c"), ("{ T", "g.c"), ("typedef char T;\n# 9 \"t.h\"\nT y;", "h.c"),
    ("int x = sizeof(T);", "i.c"), ("typedef long T; T", "j.c"), ("struct T { int T; };", "k.c"), ("#pragma T\nint T;", "l.c"),
]
LONG = [
    ("typedef int T; T x; void f(void){ T * y; { int T; T = 1; } T z; }", "A.c"),
    ("int T; int x; void g(void){ T * x; { typedef char T; T c; } T * x; }", "B.c"),
    ("typedef char U; typedef U V; V v; struct S { U T; };\n# 40 \"inc.h\" 1\nint w = sizeof(U) + sizeof(V);", "C.c"),
    ("int U(void); int V = 3; void h(int T){ T * V; U(); switch (T) { case 1: V++; default: break; } }", "D.c"),
    ("void k(void){ typedef long T; T a;\n#pragma omp x\n { typedef char U; U b; } for (int i = 0; i < 3; i++) a += i; }", "E.c"),
    ("enum { T = 1, U, V }; int a[T + U * V]; struct P { int x, y; } p = { .x = T, .y = U };", "F.c"),
    ("typedef struct T T; struct T { T *next; int U; } V; int f(T *t) { return t->next->U + (int)sizeof(T); }", "G.c"),
    ("typedef int T;\n# 10 \"other.h\"\nT a;\n# 3 \"main.c\"\nvoid f(T T){ T = 2; }\n#line 77\nint last;", "H.c"),
    ("int x = 'a' + L'b' + sizeof(int); char *s = \"str\" \"ing\"; double d = 1.5e3; _Static_assert(1, \"m\");", "I.c"),
    ("typedef int T, U, V; T f(U u, V v) { for (T i = 0; i < u; i++) { U T; T = v; } return (T)u; } int broken = ;", "J.c"),
    ("void e(void) { int a = (T)1; }", "K.c"),
    # identical directive / source text under different file names and typedef states: exposes any cache keyed by text
    ("int a;\n#line 20\nint z1;\n# 7\nint z2;\n#pragma pack(1)\nint z3;", "first.c"),
    ("typedef int a;\n#line 20\na z1;\n# 7\nint z2;\n#pragma pack(1)\nint z3;", "second.c"),
    ("int a;\n#line 20\nint z1;\n# 7\nint z2;\n#pragma pack(1)\nint z3;", "third.c"),
    ("typedef int T; T x; void f(void){ T * y; { int T; T = 1; } T z; }", "A2.c"),
    # different texts under ONE file name, failing at a coordinate: exposes anything keyed by file name (line caches ...)
    ("int a;\nint f(void)\n{\n  return a b;\n}\n", "input.c"),
    ("typedef int a;\na g(a x)\n{\n  a secret = x;\n  return secret;\n}\n", "input.c"),
    ("int ok1;\nint ok2;\nint bad = (1;\n", "input.c"),
    # rarely taken parser paths (implicit int, old-style lists, specifier-less declarations) next to programs that depend
    # on typedef names being accepted wherever an identifier may be declared
    ("int run(void) { extern helper(); static s1; for (register i = 0; i < 2; i++) ; return helper(); }", "one.c"),
    ("typedef int T; struct S { char T; }; int g(short T); void h(void) { int T; { typedef char T; T c; } }", "two.c"),
    ("enum colour { RED, GREEN, BLUE }; int pick(int n) { return n ? RED : BLUE; }", "en.c"),
    ("typedef int RED; int twice(int n) { if (n) { RED r = n; return r + r; } return 0; }", "td.c"),
    ("old(a, b) register a; char *b; { return a; } static z; const w = 1;", "kr.c"),
    ("typedef int T; T f(T a) { T b = a; return b; }", "p.c"),
    ("int T; int g(int c) { T = c; return T * 2; }", "q.c"),
    ("char *a1 = \"one\" \"two\" \"three\" \"four\"; void *w1 = L\"w\" L\"x\" L\"y\"; char *a2 = \"p\" \"q\";", "I2.c"),
]
# pairs that are always scheduled together (by file name): each exercises one kind of potentially shared state from both sides
FIXED_PAIRS = [("I.c", "I2.c"), ("first.c", "second.c"), ("second.c", "third.c"), ("one.c", "two.c"), ("en.c", "td.c"), ("p.c", "q.c"),
               ("A.c", "B.c"), ("H.c", "C.c"), ("E.c", "kr.c"), ("J.c", "K.c")]


# ------------------------------------------------------------------ results
def result_key(text, fname, lexer_cls=None, warm=False):
    """Everything observable of one parse+generate+visit run, as a JSON-able key.  warm: the parser instance has already
    completed one (unscheduled) parse of another text before - a used instance must behave like a new one (C12), so
    whatever it keeps from that parse must not become visible to a concurrently running instance either."""
    S = sut.load()
    try:
        p = S.CParser(lexer=lexer_cls) if lexer_cls is not None else S.CParser()
        if warm:
            if lexer_cls is not None:
                lexer_cls._vf_pass = True
            try:
                p.parse("typedef int warm_t; warm_t warm_up(warm_t w) { return w; }", "warm.c")
            finally:
                if lexer_cls is not None:
                    lexer_cls._vf_pass = False
        ast = p.parse(text, fname)
    except S.ParseError as e:
        return ["ParseError", str(e)]
    except Exception as e:  # noqa: BLE001
        return [type(e).__name__, str(e)[:200]]
    out = ["ok", hashlib.blake2b(repr(nf(ast, coords=True)).encode(), digest_size=10).hexdigest()]
    for rp in (False, True):
        try:
            out.append(hashlib.blake2b(S.CGenerator(reduce_parentheses=rp).visit(ast).encode(), digest_size=10).hexdigest())
        except Exception as e:  # noqa: BLE001
            out.append("gen:" + type(e).__name__)
    counts = {}

    class V(S.c_ast.NodeVisitor):
        def visit_ID(self, node):
            counts["ID"] = counts.get("ID", 0) + 1

        def visit_Decl(self, node):
            counts["Decl"] = counts.get("Decl", 0) + 1
            self.generic_visit(node)
    V().visit(ast)
    out.append([list(x) for x in sorted(counts.items())])
    return out


def solo_fresh(programs):
    """Solo result of each program from a fresh interpreter (one process per program)."""
    out = {}
    env = dict(os.environ, PYTHONHASHSEED="0", PYTHONDONTWRITEBYTECODE="1")
    root = os.path.dirname(os.path.dirname(os.path.dirname(os.path.abspath(__file__))))
    for text, fname in programs:
        r = subprocess.run([sys.executable, "-c",
                            "import sys, json; sys.setrecursionlimit(20000); from vf.checks import c13; "
                            "t = json.load(sys.stdin); print(json.dumps(c13.result_key(t[0], t[1])))"],
                           input=json.dumps([text, fname]), capture_output=True, text=True, cwd=root, env=env, timeout=120)
        if r.returncode != 0:
            raise RuntimeError("solo run failed: " + r.stderr[-500:])
        out[(text, fname)] = json.loads(r.stdout)
    return out


# ------------------------------------------------------------------ schedulers
class Sched:
    def __init__(self, schedule):
        self.schedule = list(schedule)
        self.i = 0
        self.cv = threading.Condition()
        self.done = set()
        self.trace = []
        self.stuck = False

    def wait_turn(self, me):
        with self.cv:
            while True:
                while self.i < len(self.schedule) and self.schedule[self.i] in self.done:
                    self.i += 1
                if self.i >= len(self.schedule) or self.schedule[self.i] == me:
                    if self.i < len(self.schedule):
                        self.i += 1
                    self.trace.append(me)
                    self.cv.notify_all()
                    return
                if not self.cv.wait(timeout=300):
                    self.stuck = True
                    self.trace.append(me)
                    return

    def finish(self, me):
        with self.cv:
            self.done.add(me)
            self.cv.notify_all()


def make_lexer(sched, me):
    S = sut.load()

    class SchedulingLexer(S.CLexer):
        _vf_pass = False

        def token(self):
            if not type(self)._vf_pass:
                sched.wait_turn(me)
            return super().token()
    return SchedulingLexer


def count_fetches(text, fname):
    S = sut.load()
    n = [0]

    class Counting(S.CLexer):
        def token(self):
            n[0] += 1
            return super().token()
    result_key(text, fname, Counting)
    return n[0]


def run_token_schedule(progs, schedule, warm=False):
    s = Sched(schedule)
    res = {}

    def work(i, text, fname):
        try:
            res[i] = result_key(text, fname, make_lexer(s, i), warm=warm)
        except BaseException as e:  # noqa: BLE001
            res[i] = ["harness-exception", repr(e)]
        finally:
            s.finish(i)
    ths = [threading.Thread(target=work, args=(i, t, f)) for i, (t, f) in enumerate(progs)]
    for t in ths:
        t.start()
    for t in ths:
        t.join(900)
    if any(t.is_alive() for t in ths):
        s.stuck = True   # a wall-clock watchdog firing is inconclusive, never a violation
    return res, s


_tl = threading.local()
_mon_on = [False]


def _step_cb(code, off):
    me = getattr(_tl, "me", None)
    if me is None:
        return None
    if code.co_filename.startswith(sut.PKG_DIR):
        _tl.sched.wait_turn(me)
        return None
    return sys.monitoring.DISABLE


def run_call_schedule(progs, schedule):
    mon = sys.monitoring
    tool = mon.DEBUGGER_ID
    if not _mon_on[0]:
        mon.use_tool_id(tool, "vf-sched")
        mon.register_callback(tool, mon.events.PY_START, _step_cb)
        _mon_on[0] = True
    s = Sched(schedule)
    res = {}

    def work(i, text, fname):
        _tl.me = i
        _tl.sched = s
        try:
            res[i] = result_key(text, fname)
        except BaseException as e:  # noqa: BLE001
            res[i] = ["harness-exception", repr(e)]
        finally:
            _tl.me = None
            s.finish(i)
    ths = [threading.Thread(target=work, args=(i, t, f)) for i, (t, f) in enumerate(progs)]
    mon.restart_events()
    mon.set_events(tool, mon.events.PY_START)
    try:
        for t in ths:
            t.start()
        for t in ths:
            t.join(900)
        if any(t.is_alive() for t in ths):
            s.stuck = True
    finally:
        mon.set_events(tool, 0)
    return res, s


def switches(trace):
    return sum(1 for a, b in zip(trace, trace[1:]) if a != b)


# ------------------------------------------------------------------ plan / shards
def plan(tier, seed):
    specs = []
    pairs = list(itertools.permutations(range(len(SHORT)), 2))
    rnd = random.Random(seed)
    rnd.shuffle(pairs)
    npairs = 8 if tier == "quick" else 30
    maxf = 6 if tier == "quick" else 7
    for i, pr in enumerate(pairs[:npairs]):
        specs.append({"name": f"tok-all-{i}", "mode": "tok-all", "pair": list(pr), "maxfetch": maxf})
    for i in range(6):
        specs.append({"name": f"tok-rand-{i}", "mode": "tok-rand", "n": 120 if tier == "quick" else 4000, "rseed": seed * 31 + i})
    for i in range(4):
        specs.append({"name": f"call-rand-{i}", "mode": "call-rand", "n": 25 if tier == "quick" else 1500, "rseed": seed * 37 + i})
    specs.append({"name": "deep", "mode": "deep"})
    for i in range(4):
        specs.append({"name": f"deep-pairs-{i}", "mode": "deep-pairs", "shard": i, "nshards": 4,
                      "depths": [30, 60] if tier == "quick" else [20, 35, 50, 65, 80]})
    specs.append({"name": "threads", "mode": "threads", "reps": 3 if tier == "quick" else 40, "rseed": seed})
    specs.append({"name": "alternate", "mode": "alternate", "n": 60 if tier == "quick" else 2000, "rseed": seed})
    return specs


def compare(res, progs, solo, trace, mode, schedule_desc):
    vs = []
    for i, (t, f) in enumerate(progs):
        want = solo[(t, f)]
        got = res.get(i)
        if got != want:
            vs.append({"kind": "result-differs-from-solo-run", "sig": f"{mode}:{(want or ['?'])[0]}->{(got or ['missing'])[0]}",
                       "case": {"mode": mode, "programs": [list(p) for p in progs], "schedule": schedule_desc},
                       "detail": {"instance": i, "file": f, "solo": want, "interleaved": got, "executed_steps": len(trace)}})
    return vs


def run_shard(spec):
    res = {"evaluations": 0, "nontrivial_distinct": 0, "hashes": [], "violations": [], "samples": [], "inconclusive": [],
           "counters": {"schedules": 0, "steps": 0, "max_switches": 0, "parses": 0}}
    cnt = res["counters"]
    hs = set()
    mode = spec["mode"]
    sut.load()  # import pycparser before any scheduled thread starts (imports must not run under the scheduler)

    def note(trace, nontrivial=True):
        cnt["schedules"] += 1
        cnt["steps"] += len(trace)
        sw = switches(trace)
        cnt["max_switches"] = max(cnt["max_switches"], sw)
        if sw >= 2:
            hs.add(int.from_bytes(hashlib.blake2b(bytes(trace[:4000]), digest_size=7).digest(), "big"))

    def add(vs):
        if vs and len(res["violations"]) < 30:
            res["violations"] += vs

    if mode == "tok-all":
        progs = [SHORT[spec["pair"][0]], SHORT[spec["pair"][1]]]
        solo = solo_fresh(progs)
        nA, nB = count_fetches(*progs[0]), count_fetches(*progs[1])
        nA, nB = min(nA, spec["maxfetch"]), min(nB, spec["maxfetch"])
        for pos in itertools.combinations(range(nA + nB), nA):
            sch = [1] * (nA + nB)
            for p in pos:
                sch[p] = 0
            r, s = run_token_schedule(progs, sch)
            res["evaluations"] += 2
            cnt["parses"] += 2
            note(s.trace)
            if s.stuck:
                res["inconclusive"].append({"why": "scheduler wait timed out", "schedule": sch})
                break
            add(compare(r, progs, solo, s.trace, "token-schedule", sch))
        res["samples"].append({"programs": [list(p) for p in progs], "fetches": [nA, nB], "schedule_example": sch})
    elif mode in ("tok-rand", "call-rand"):
        rnd = random.Random(spec["rseed"])
        solo = solo_fresh(LONG)
        for i in range(spec["n"]):
            k = rnd.choice([2, 2, 3, 4]) if mode == "tok-rand" else 2
            progs = rnd.sample(LONG, k)
            if i < 2 * len(FIXED_PAIRS):
                fa, fb = FIXED_PAIRS[(i // 2 + spec["rseed"]) % len(FIXED_PAIRS)]
                by_name = {}
                for t_, f_ in LONG:
                    by_name.setdefault(f_, (t_, f_))
                progs = [by_name[fa], by_name[fb]]
                k = 2
            L = 400 if mode == "tok-rand" else 6000
            burst = rnd.choice([1, 1, 2, 5, 20])
            sch = []
            while len(sch) < L:
                sch += [rnd.randrange(k)] * rnd.randrange(1, burst + 1)
            warm = mode == "tok-rand" and i % 2 == 1
            r, s = run_token_schedule(progs, sch, warm=warm) if mode == "tok-rand" else run_call_schedule(progs, sch)
            res["evaluations"] += k
            cnt["warm_instances"] = cnt.get("warm_instances", 0) + (k if warm else 0)
            cnt["parses"] += k
            note(s.trace)
            if s.stuck:
                res["inconclusive"].append({"why": "scheduler wait timed out", "mode": mode})
                break
            add(compare(r, progs, solo, s.trace, mode, {"rseed": spec["rseed"], "index": i, "burst": burst, "head": sch[:40], "warm": warm}))
        res["samples"].append({"mode": mode, "programs": [p[1] for p in progs], "executed_steps": len(s.trace), "switches": switches(s.trace)})
    elif mode == "deep":
        # process-wide interpreter settings (recursion limit, switch interval, ...) are shared state too: run deep
        # nests under the interpreter's DEFAULT limits, solo and interleaved, each in a fresh interpreter
        deep = [("int b = " + "(" * 200 + "1" + ")" * 200 + ";", "deepexpr.c"),
                ("void f(void) " + "{" * 300 + "}" * 300, "deepblock.c"),
                ("int x = " + "{" * 400 + "1" + "}" * 400 + ";", "deepinit.c")]
        short = ("int a;", "short.c")
        code = ("import sys, json\n"
                "from vf import sut; sut.load()\n"
                "from vf.checks import c13\n"
                "t = json.load(sys.stdin)\n"
                "progs = [tuple(p) for p in t['progs']]\n"
                "if t['sched'] is None:\n"
                "    print(json.dumps([c13.result_key(*p) for p in progs]))\n"
                "else:\n"
                "    r, s = c13.run_token_schedule(progs, t['sched'])\n"
                "    print(json.dumps([r.get(i) for i in range(len(progs))]))\n")
        root = os.path.dirname(os.path.dirname(os.path.dirname(os.path.abspath(__file__))))
        env = dict(os.environ, PYTHONHASHSEED="0", PYTHONDONTWRITEBYTECODE="1")

        def fresh(progs, sched):
            r = subprocess.run([sys.executable, "-c", code], input=json.dumps({"progs": progs, "sched": sched}), capture_output=True,
                               text=True, cwd=root, env=env, timeout=600)
            return json.loads(r.stdout) if r.returncode == 0 and r.stdout.strip() else None
        for d in deep:
            solo_d = fresh([d], None)
            solo_s = fresh([short], None)
            # short parse starts first and ends before the deep one descends / short parse in the middle / at the end
            for sch in ([0, 1] + [0] * 10 + [1] * 3000, [1] * 50 + [0] * 10 + [1] * 3000, [0] + [1] * 3000 + [0] * 10):
                got = fresh([short, d], sch)
                res["evaluations"] += 2
                cnt["parses"] += 2
                cnt["schedules"] += 1
                hs.add(hash((d[1], tuple(sch[:70]))) & ((1 << 56) - 1))
                if got is None or solo_d is None or solo_s is None:
                    res["inconclusive"].append({"why": "deep-nest helper process failed", "file": d[1]})
                    continue
                for i, (want, g, prog) in enumerate(((solo_s[0], got[0], short), (solo_d[0], got[1], d))):
                    if g != want:
                        add([{"kind": "result-differs-from-solo-run", "sig": "deep:" + str(g[0] if g else None),
                              "case": {"mode": "deep", "programs": [list(short), [d[0][:80] + "...", d[1]]], "schedule": sch[:70]},
                              "detail": {"file": prog[1], "solo": want, "interleaved": g,
                                         "note": "run under the interpreter's default recursion limit"}}])
        res["samples"].append({"mode": "deep", "files": [d[1] for d in deep]})
    elif mode == "deep-pairs":
        # two parses that are BOTH deep inside a nest at the same time, under the interpreter's default limits: any
        # process-wide depth accounting (a counter in a closure, the recursion limit itself) shows up as a result that
        # differs from the solo run although each parse alone is comfortably within the limits
        nests = [("int v = ", "(", "a", ")", ";"), ("int v = ", "f(", "1", ")", ";"), ("int v = ", "a[", "0", "]", ";"),
                 ("void f(void) ", "{", "", "}", ""), ("int x[] = ", "{", "1", "}", ";"), ("int ", "(*", "p", ")", ";"),
                 ("int v = ", "-(", "1", ")", ";"), ("void f(void) { ", "if (c) { ", ";", " }", " }")]
        progs = []
        for ni, (pre, op, mid, cl, post) in enumerate(nests):
            for d in spec["depths"]:
                progs.append((pre + op * d + mid + cl * d + post, f"nest{ni}_{d}.c"))
        root = os.path.dirname(os.path.dirname(os.path.dirname(os.path.abspath(__file__))))
        env = dict(os.environ, PYTHONHASHSEED="0", PYTHONDONTWRITEBYTECODE="1")
        code = ("import sys, json\n"
                "from vf import sut; sut.load()\n"
                "from vf.checks import c13\n"
                "t = json.load(sys.stdin)\n"
                "progs = [tuple(p) for p in t['progs']]\n"
                "r, s = c13.run_token_schedule(progs, t['sched'])\n"
                "print(json.dumps([[r.get(i) for i in range(len(progs))], s.stuck, c13.switches(s.trace)]))\n")

        def fresh(progs_, sched):
            r = subprocess.run([sys.executable, "-c", code], input=json.dumps({"progs": progs_, "sched": sched}), capture_output=True,
                               text=True, cwd=root, env=env, timeout=600)
            return json.loads(r.stdout) if r.returncode == 0 and r.stdout.strip() else None
        pairs = [(a, b) for a in range(len(progs)) for b in range(len(progs)) if a < b and (a * 7 + b) % 5 == 0]
        pairs += [(a, a) for a in range(len(progs))]
        pairs = [pr for k, pr in enumerate(sorted(pairs)) if k % spec["nshards"] == spec["shard"]]
        solo = {}
        cnt["deep_pairs_skipped_solo_not_ok"] = 0
        for a, b in pairs:
            pa = [progs[a][0], progs[a][1]]
            pb = [progs[b][0], "other_" + progs[b][1]]
            for q in (pa, pb):
                if tuple(q) not in solo:
                    g = fresh([q], [0])
                    solo[tuple(q)] = g[0][0] if g else None
            if any(solo[tuple(q)] is None for q in (pa, pb)):
                res["inconclusive"].append({"why": "deep-pairs helper process failed", "files": [pa[1], pb[1]]})
                continue
            if solo[tuple(pa)][0] != "ok" or solo[tuple(pb)][0] != "ok":
                cnt["deep_pairs_skipped_solo_not_ok"] += 1     # too deep for the default limits already when alone
                continue
            na = count_fetches(*pa)
            # A descends to its innermost token, B runs to completion, A finishes / strict alternation
            for sch in ([0] * (na // 2 + 1) + [1] * 20000 + [0] * 20000, [0, 1] * 20000):
                got = fresh([pa, pb], sch)
                res["evaluations"] += 2
                cnt["parses"] += 2
                cnt["schedules"] += 1
                hs.add(hash((pa[1], pb[1], tuple(sch[:70]))) & ((1 << 56) - 1))
                if got is None:
                    res["inconclusive"].append({"why": "deep-pairs helper process failed", "files": [pa[1], pb[1]]})
                    continue
                if got[1]:
                    res["inconclusive"].append({"why": "scheduler wait timed out", "mode": mode})
                    continue
                cnt["max_switches"] = max(cnt.get("max_switches", 0), got[2])
                for q, g in zip((pa, pb), got[0]):
                    if g != solo[tuple(q)]:
                        add([{"kind": "result-differs-from-solo-run", "sig": "deep-pairs:" + str(g[0] if g else None),
                              "case": {"mode": "deep-pairs", "programs": [pa, pb], "schedule": sch[:70]},
                              "detail": {"file": q[1], "solo": solo[tuple(q)], "interleaved": g,
                                         "note": "both parses are deep inside a nest at the same time; default recursion limit"}}])
        res["samples"].append({"mode": "deep-pairs", "pairs": len(pairs), "example": [progs[pairs[0][0]][1], progs[pairs[0][1]][1]] if pairs else None})
    elif mode == "threads":
        solo = solo_fresh(LONG)
        old = sys.getswitchinterval()
        sys.setswitchinterval(1e-6)
        try:
            for rep in range(spec["reps"]):
                out = {}

                def work(ti):
                    rr = random.Random(spec["rseed"] * 1000 + rep * 10 + ti)
                    for j in range(25):
                        t, f = rr.choice(LONG)
                        out[(ti, j)] = ((t, f), result_key(t, f))
                ths = [threading.Thread(target=work, args=(ti,)) for ti in range(8)]
                for t in ths:
                    t.start()
                for t in ths:
                    t.join(1800)
                for key, (prog, got) in out.items():
                    res["evaluations"] += 1
                    cnt["parses"] += 1
                    if got != solo[prog]:
                        add([{"kind": "result-differs-from-solo-run", "sig": "threads:" + str(got[0]),
                              "case": {"mode": "threads", "programs": [list(prog)]},
                              "detail": {"file": prog[1], "solo": solo[prog], "concurrent": got}}])
                cnt["schedules"] += 1
                hs.add(rep + (spec["rseed"] << 8) + (1 << 40))
        finally:
            sys.setswitchinterval(old)
        res["samples"].append({"threads": 8, "parses_per_thread": 25, "switch_interval": 1e-6})
    elif mode == "alternate":
        rnd = random.Random(spec["rseed"])
        allp = LONG + SHORT
        solo = solo_fresh(allp)
        S = sut.load()
        for i in range(spec["n"]):
            seq = [rnd.choice(allp) for _ in range(rnd.randrange(2, 6))]
            # several live instances, used in an interleaved fashion in one thread
            parsers = [S.CParser() for _ in seq]
            got = []
            order = list(range(len(seq)))
            rnd.shuffle(order)
            for j in order:
                got.append((j, result_key(*seq[j])))
            for j, g in got:
                res["evaluations"] += 1
                cnt["parses"] += 1
                if g != solo[seq[j]]:
                    add([{"kind": "result-differs-from-solo-run", "sig": "alternate:" + str(g[0]),
                          "case": {"mode": "alternate", "programs": [list(seq[k]) for k in order]},
                          "detail": {"file": seq[j][1], "solo": solo[seq[j]], "in_sequence": g}}])
            cnt["schedules"] += 1
            hs.add(hash(tuple(order) + tuple(p[1] for p in seq)) & ((1 << 56) - 1))
            del parsers
        res["samples"].append({"mode": "alternate", "sequence": [p[1] for p in seq]})
    res["hashes"] = sorted(hs)
    return res


def summarize(results, tier, seed):
    tot = {"schedules": 0, "steps": 0, "parses": 0, "max_switches": 0, "deep_pairs_skipped_solo_not_ok": 0, "warm_instances": 0}
    for r in results:
        c = r.get("counters", {})
        for k in ("schedules", "steps", "parses", "deep_pairs_skipped_solo_not_ok", "warm_instances"):
            tot[k] += c.get(k, 0)
        tot["max_switches"] = max(tot["max_switches"], c.get("max_switches", 0))
    return {"monitors": {"schedulers": tot},
            "exhaustive_parts": [f"all interleavings of two parses with <= {6 if tier == 'quick' else 7} token fetches each, per program pair"]}


def replay(rec):
    c = rec["case"]
    progs = [tuple(p) for p in c["programs"]]
    solo = solo_fresh(progs)
    if c["mode"] == "token-schedule":
        r, s = run_token_schedule(progs, c["schedule"])
        return compare(r, progs, solo, s.trace, "token-schedule", c["schedule"])
    vs = []
    for p in progs:
        g = result_key(*p)
        if g != solo[p]:
            vs.append({"kind": "result-differs-from-solo-run", "detail": {"file": p[1], "solo": solo[p], "now": g}})
    return vs
