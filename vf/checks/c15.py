"""C15 - ASTs survive repr/eval, pickle and deepcopy unchanged."""
import copy
import hashlib
import pickle
import random

from .. import sut
from ..gen import corpus, mutate
from ..nf import depth, first_diff, nf, object_ids

ID = "C15"
LEVEL = "exploration"
RULE = ("every AST of the corpus, of quoting/non-ASCII stress programs, of deep expression/statement nests and of "
        "accepted token-mutants is rebuilt by eval(repr()) (AST depth <= 150: CPython's own nesting limits), by pickle "
        "protocols 2..HIGHEST and by copy.deepcopy; the neutral forms (with coordinates for pickle/deepcopy), the "
        "generated C text and object identity (no shared Node/Coord/list) are compared. Non-trivial: AST with >= 3 "
        "nodes; distinct = distinct source texts.")
ASSUMPTIONS = ["eval() refuses > 200 nested parentheses and repr() has a C-level recursion guard: the repr/eval leg "
               "runs on ASTs of depth <= 150 only (interpreter limits, not pycparser's)"]
SHARD_TIMEOUT = {"quick": 600, "thorough": 3000}

QUOTING = [
    "char a = '\\''; char b = '\"'; char c = '\\\\'; char *s = \"\\\"\\\\\\'\";",
    "char *t = \"caf\u00e9 \u4e2d\u6587 \\t tab\"; int w = L'\u00e9';",
    "#pragma omp \"quoted\" 'single' back\\slash caf\u00e9\nint after_pragma;",
    "#pragma\nint empty_pragma;",
    "void f(void) { _Pragma(\"omp \\\"q\\\" for\") ; }",
    "char *e = \"\"; char *e2 = \"\" \"\"; int z[] = { };",
    "struct E { }; void g(void) { } int h(); int (*k)(void);",
    "void f2(int a) { if (a) { } else ; for (;;) ; switch (a) { } return; }",
    "int x = '\\x41' + '\\101' + 'ab' + L'a' + u'b' + U'c' + u8'd'; char *m = u8\"m\" u8\"n\";",
    "# 1 \"a \\\"q\\\" b.h\"\nint in_odd_file;\n# 9 \"c:\\\\dir\\\\f.h\" 2\nint win;",
]


def deep_programs(tier):
    out = []
    for k in (20, 100) + ((400, 1500) if tier == "thorough" else (400,)):
        out.append("int f(int a) { return " + " + ".join(["a"] * k) + "; }")
        out.append("int g(int a) { return " + "(" * (k // 4) + "a" + ")" * (k // 4) + "; }")
        out.append("void h(int a) { " + "if (a) { " * (k // 4) + "a = 1;" + " }" * (k // 4) + " }")
        out.append("int *" * 1 + "p" + str(k) + " = " + "&*" * (k // 4) + "q;")
    return out


def plan(tier, seed):
    n = 12
    return [{"name": f"ast-{i}", "shard": i, "nshards": n, "rseed": seed * 31 + i,
             "nmut": 400 if tier == "quick" else 5000, "big": tier == "thorough"} for i in range(n)]


def _gen(ast, rp=False):
    S = sut.load()
    try:
        return ("ok", S.CGenerator(reduce_parentheses=rp).visit(ast))
    except RecursionError:
        return ("rec",)
    except Exception as e:  # noqa: BLE001 - generator failures belong to C07
        return ("exc", type(e).__name__)


# file names as parse() argument and (in C string spelling) in a linemarker in front of the text: coordinates must
# survive every rebuild exactly, whatever the name looks like (drive letters, UNC paths, quotes, blanks, non-ASCII, empty)
ODD_NAMES = ["C:\\src\\unit.c", "\\\\buildsrv\\src\\unit.c", "\\\\\\\\x\\\\y.c", "dir with blank/a b.c", "caf\u00e9/\u4e2d.c", "q\"uote.c", "",
             "a\\", "%s{0}.c", "<stdin>", "x:1:2", "tab\there.c", "'single'.c", "../up/../f.c", "trailing\\\\"]


def _cstr(name):
    return '"' + name.replace("\\", "\\\\").replace('"', '\\"') + '"'


def eval_text(text, counters=None, filename="orig.c", marker=None):
    S = sut.load()
    if marker is not None:
        text = f"# 7 {_cstr(marker)}\n" + text
    try:
        ast = S.CParser().parse(text, filename)
    except Exception:  # noqa: BLE001
        return None, []
    case = {"text": text, "filename": filename}
    vs = []
    base = nf(ast, coords=False)
    basec = nf(ast, coords=True)
    gtext = _gen(ast)
    nnodes = sum(1 for _ in __import__("vf.nf", fromlist=["walk"]).walk(ast))
    d = depth(ast)

    def compare(kind, rebuilt, with_coords):
        got = nf(rebuilt, coords=with_coords)
        want = basec if with_coords else base
        if got != want:
            vs.append({"kind": kind + "-differs", "sig": kind, "case": case,
                       "detail": {"first_difference": first_diff(want, got)}})
            return
        if gtext[0] == "ok":
            g2 = _gen(rebuilt)
            if g2 != gtext:
                vs.append({"kind": kind + "-generated-text-differs", "sig": kind, "case": case,
                           "detail": {"orig": gtext[1][:200] if gtext[0] == "ok" else gtext, "rebuilt": g2[1][:200] if g2[0] == "ok" else g2}})
        shared = set(object_ids(ast)) & set(object_ids(rebuilt))
        if shared:
            ids = object_ids(ast)
            vs.append({"kind": kind + "-shares-objects", "sig": kind, "case": case,
                       "detail": {"shared": sorted({type(ids[i]).__name__ for i in shared})}})

    # repr / eval
    if d <= 150:
        try:
            r = repr(ast)
            rebuilt = eval(r, dict(vars(S.c_ast)))
            compare("repr-eval", rebuilt, False)
            if counters is not None:
                counters["repr_eval"] += 1
        except Exception as e:  # noqa: BLE001
            vs.append({"kind": "repr-eval-raises", "sig": type(e).__name__, "case": case,
                       "detail": {"error": repr(e)[:300], "ast_depth": d}})
    for proto in range(2, pickle.HIGHEST_PROTOCOL + 1):
        try:
            rebuilt = pickle.loads(pickle.dumps(ast, proto))
            compare(f"pickle{proto}", rebuilt, True)
            if counters is not None:
                counters["pickle"] += 1
        except RecursionError:
            if counters is not None:
                counters["interpreter_limit"] += 1
        except Exception as e:  # noqa: BLE001
            vs.append({"kind": "pickle-raises", "sig": f"{proto}:{type(e).__name__}", "case": case,
                       "detail": {"protocol": proto, "error": repr(e)[:300]}})
    try:
        rebuilt = copy.deepcopy(ast)
        compare("deepcopy", rebuilt, True)
        if counters is not None:
            counters["deepcopy"] += 1
        # independence: mutate the copy everywhere, the original must not move
        for n in __import__("vf.nf", fromlist=["walk"]).walk(rebuilt):
            for s in type(n).__slots__:
                if s in ("__weakref__",):
                    continue
                v = getattr(n, s, None)
                if isinstance(v, list):
                    v.append("<mutated>")
                elif isinstance(v, str):
                    setattr(n, s, v + "<m>")
            c = getattr(n, "coord", None)
            if c is not None and hasattr(c, "line"):
                c.line = -1
        if nf(ast, coords=True) != basec:
            vs.append({"kind": "deepcopy-not-independent", "sig": "indep", "case": case,
                       "detail": {"first_difference": first_diff(basec, nf(ast, coords=True))}})
    except RecursionError:
        if counters is not None:
            counters["interpreter_limit"] += 1
    except Exception as e:  # noqa: BLE001
        vs.append({"kind": "deepcopy-raises", "sig": type(e).__name__, "case": case, "detail": {"error": repr(e)[:300]}})
    return nnodes, vs


def run_shard(spec):
    res = {"evaluations": 0, "nontrivial_distinct": 0, "hashes": [], "violations": [], "samples": [],
           "counters": {"repr_eval": 0, "pickle": 0, "deepcopy": 0, "interpreter_limit": 0, "nodes": 0, "max_depth_nodes": 0}}
    rnd = random.Random(spec["rseed"])
    from ..gen import extras
    texts = QUOTING + deep_programs(spec["tier"]) + [t for _, t in corpus.zoo() + corpus.repo_files() + extras.TEXTS]
    if spec.get("big"):
        texts += [t for _, t in corpus.big_files()]
    from ..gen import cases as _cases
    for gi in range(36 if not spec.get("big") else 600):
        # each shard adds its own model-generated programs (multi-declarator tagged definitions, _Alignas, _Pragma ...)
        texts.append(_cases.build({"k": "tu", "seed": spec["rseed"] * 1000 + gi, "style": "single"}).text)
    mine = [t for i, t in enumerate(texts) if i % spec["nshards"] == spec["shard"]]
    small = [mutate.units(t) for t in texts if len(t) < 3000]
    hs = set()
    for i in range(len(mine) + spec["nmut"]):
        if i < len(mine):
            text = mine[i]
        else:
            _, mus = mutate.mutate(rnd, rnd.choice(small), rnd.choice([1, 2]))
            text = mutate.join(mus)
        if i % 3 == 1:
            n, vs = eval_text(text, res["counters"], filename=ODD_NAMES[(i // 3) % len(ODD_NAMES)],
                              marker=ODD_NAMES[(i // 3 + 5) % len(ODD_NAMES)] if i % 2 else None)
            res["counters"]["odd_file_names"] = res["counters"].get("odd_file_names", 0) + (n is not None)
        else:
            n, vs = eval_text(text, res["counters"])
        if n is None:
            continue
        res["evaluations"] += 1
        res["counters"]["nodes"] += n
        if n >= 3:
            hs.add(int.from_bytes(hashlib.blake2b(text.encode("utf-8", "replace"), digest_size=7).digest(), "big"))
        if vs and len(res["violations"]) < 30:
            res["violations"] += vs
        if len(res["samples"]) < 1:
            res["samples"].append({"source": text[:200], "nodes": n})
    res["hashes"] = sorted(hs)
    return res


def summarize(results, tier, seed):
    tot = {}
    for r in results:
        for k, v in r.get("counters", {}).items():
            tot[k] = tot.get(k, 0) + v
    return {"monitors": {"round_trips": tot}, "pickle_protocols": list(range(2, pickle.HIGHEST_PROTOCOL + 1))}


def replay(rec):
    return eval_text(rec["case"]["text"], filename=rec["case"].get("filename", "orig.c"))[1]
