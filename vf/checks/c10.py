"""C10 - literals are accepted iff well-formed and classified by their spelling.

Reference-model monitor: a hand-written recogniser of C99 6.4.4/6.4.5 literals (plus the
documented extensions) decides, for every string, whether it is one well-formed literal
and of which kind; the real lexer is observed through its token() / error callback
boundary, the parser through the Constant node it builds."""
import itertools
import random

from .. import sut
from ..ref import lex as rlex

ID = "C10"
LEVEL = "exploration"
ALPHA = "0178 9afxXuUlL.ep+-'\"\\".replace(" ", "")
RULE = ("exhaustive: every string of length <= 4 (quick) / <= 6 (thorough) over the 21-symbol alphabet "
        "0 1 7 8 9 a f x X u U l L . e p + - ' \" \\ (and every quoted string with a body of one symbol less) is lexed alone: 'exactly one literal token spanning the whole string, "
        "no error' must hold iff the reference recogniser says the string is a well-formed literal, with the same kind; "
        "strings in the malformed classes the property lists (bad octal digits, empty/unterminated character constant, "
        "invalid escape) and comment openers must be reported at their first character, and a terminated quoted sequence "
        "with an invalid escape or an empty character constant yields exactly one report and no token; random longer literals from the "
        "C99 grammar with random suffixes/prefixes and their one-edit neighbours; every accepted literal is also parsed "
        "as an initializer to observe Constant.type / Constant.value. Non-trivial: string of length >= 2; distinct by "
        "construction (exhaustive) / by text (random).")
ASSUMPTIONS = ["multi-character constants have 2-4 characters and the lenient escapes (any letter, digit runs, ._~!=&^-) are "
               "accepted: both pinned by the test-suite",
               "ill-formed pp-numbers outside the listed malformed classes (0x1.8, 1e, 1..2) are literals for neither side; how "
               "they split is not judged"]
SHARD_TIMEOUT = {"quick": 900, "thorough": 3600}
INT_TYPE = {"": "int", "u": "unsigned int", "l": "long int", "ul": "unsigned long int", "ll": "long long int",
            "ull": "unsigned long long int"}


def plan(tier, seed):
    n = 16
    L = 4 if tier == "quick" else 6
    specs = [{"name": f"strings-{i}", "mode": "strings", "maxlen": L, "shard": i, "nshards": n} for i in range(n)]
    nr = 6000 if tier == "quick" else 40000
    for i in range(4):
        specs.append({"name": f"random-{i}", "mode": "random", "n": nr, "rseed": seed * 131 + i})
    return specs


def expected_constant_type(kind, s):
    if kind.startswith("INT_CONST_") and kind != "INT_CONST_CHAR":
        body = s.lower()
        i = len(body)
        while i > 0 and body[i - 1] in "ul":
            i -= 1
        if kind == "INT_CONST_HEX":
            # hex digits never include u/l, so the suffix split is unambiguous
            pass
        suf = body[i:]
        key = ("u" if "u" in suf else "") + "l" * suf.count("l")
        return INT_TYPE[key]
    if kind == "INT_CONST_CHAR":
        return "int"
    if kind in ("FLOAT_CONST", "HEX_FLOAT_CONST"):
        return {"f": "float", "l": "long double"}.get(s[-1].lower(), "double")
    if kind.endswith("CHAR_CONST"):
        return "char"
    return "string"


def malformed_class(s):
    if rlex.classify_number(s) == "BADOCT" if (s and s[0] in rlex.DIG) else False:
        return "bad-octal"
    if s == "''":
        return "empty-char-constant"
    if s and s[0] in "'\"":
        end, n, st = rlex.scan_quoted(s, 0)
        if end == len(s) and st == "unterminated":
            return "unterminated-" + ("char" if s[0] == "'" else "string") + "-constant"
        if end == len(s) and st == "badescape":
            return "invalid-escape"
    if s in ("/*", "//"):
        return "comment"
    return None


class Observer:
    def __init__(self):
        S = sut.load()
        self.errs = []
        self.lx = S.CLexer(lambda m, l, c: self.errs.append((m, l, c)), lambda: None, lambda: None, lambda n: False)

    def observe(self, s):
        """(kind-or-None, tokens, errors) as seen at the lexer's API boundary."""
        del self.errs[:]
        self.lx.input(s, "")
        toks = []
        while True:
            t = self.lx.token()
            if t is None:
                break
            toks.append((t.type, t.value))
            if len(toks) > len(s) + 2:
                break
        kind = None
        if len(toks) == 1 and not self.errs and toks[0][1] == s and toks[0][0] in rlex.LITERAL_KINDS:
            kind = toks[0][0]
        return kind, toks, list(self.errs)


def judge(ob, s, counters, parser=None):
    ref = rlex.classify_literal(s)
    obs, toks, errs = ob.observe(s)
    case = {"string": s}
    if ref == "PREFIXED_MULTICHAR":
        # K22: valid C (implementation-defined value) but split into identifier + constant.  Attributed only with
        # the exact signature: two tokens ID + INT_CONST_CHAR, no error; the unprefixed twin must be one token.
        pre = s[:s.index("'")]
        twin = ob.observe(s[len(pre):])[0]
        if obs is None and [t[0] for t in toks] == ["ID", "INT_CONST_CHAR"] and not errs and twin == "INT_CONST_CHAR":
            counters["kf_K22"] += 1
            return None
        if obs is not None:
            counters["kf_K22_not_reproduced"] += 1
            return None
        return {"kind": "literal-recognition-differs", "sig": "PREFIXED_MULTICHAR", "case": case,
                "detail": {"reference": ref, "observed_tokens": toks[:4], "errors": errs[:2]}}
    if ref != obs:
        return {"kind": "literal-recognition-differs", "sig": f"{ref}->{obs}", "case": case,
                "detail": {"reference": ref, "observed_kind": obs, "observed_tokens": toks[:4], "errors": errs[:2]}}
    if ref is None:
        mc = malformed_class(s)
        if mc is not None:
            counters["malformed_checked"] += 1
            if not errs or (errs[0][1], errs[0][2]) != (1, 1):
                return {"kind": "malformed-literal-not-reported-at-its-start", "sig": mc, "case": case,
                        "detail": {"class": mc, "observed_tokens": toks[:4], "errors": errs[:2]}}
            if mc in ("invalid-escape", "empty-char-constant") and (toks or len(errs) != 1):
                # a quoted, terminated sequence with a bad escape (or nothing) inside is one malformed literal:
                # one report, and none of its characters may come back as other tokens
                return {"kind": "malformed-literal-split-into-tokens", "sig": mc, "case": case,
                        "detail": {"class": mc, "observed_tokens": toks[:4], "errors": errs[:3]}}
        return None
    counters["literals_accepted"] += 1
    counters["by_kind"][ref] = counters["by_kind"].get(ref, 0) + 1
    if parser is not None:
        S = sut.load()
        src = ("void *v = " if ref.endswith("STRING_LITERAL") else "int v = ") + s + ";"
        try:
            ast = parser.parse(src, "lit.c")
            c = ast.ext[0].init
        except Exception as e:  # noqa: BLE001
            return {"kind": "accepted-literal-rejected-by-parser", "sig": ref, "case": case,
                    "detail": {"source": src, "raised": f"{type(e).__name__}: {e}"}}
        want_t = expected_constant_type(ref, s)
        if type(c).__name__ != "Constant" or c.value != s or c.type != want_t:
            return {"kind": "Constant-node-differs-from-spelling", "sig": f"{ref}:{want_t}", "case": case,
                    "detail": {"source": src, "expected": [want_t, s],
                               "observed": [getattr(c, "type", None), getattr(c, "value", None)]}}
        counters["constants_checked"] += 1
    return None


def rand_literal(rnd):
    r = rnd.random()
    d = lambda n, al="0123456789": "".join(rnd.choice(al) for _ in range(n))  # noqa: E731
    if r < 0.3:
        base = rnd.choice([lambda: str(rnd.randrange(1, 10)) + d(rnd.randrange(0, 12)), lambda: "0" + d(rnd.randrange(0, 10), "01234567"),
                           lambda: rnd.choice(["0x", "0X"]) + d(rnd.randrange(1, 12), "0123456789abcdefABCDEF"),
                           lambda: rnd.choice(["0b", "0B"]) + d(rnd.randrange(1, 12), "01")])()
        return base + rnd.choice(["", "u", "U", "l", "L", "ul", "uL", "Ul", "UL", "lu", "LU", "ll", "LL", "ull", "ULL", "llu", "LLU", "uLL", "Ull"])
    if r < 0.55:
        m = rnd.choice([lambda: d(rnd.randrange(1, 6)) + "." + d(rnd.randrange(0, 6)), lambda: "." + d(rnd.randrange(1, 6)),
                        lambda: d(rnd.randrange(1, 6))])()
        e = rnd.choice(["", "", "e", "E"])
        if e or "." not in m:
            e = (e or "e") + rnd.choice(["", "+", "-"]) + d(rnd.randrange(1, 4))
        return m + e + rnd.choice(["", "", "f", "F", "l", "L"])
    if r < 0.65:
        h = "0123456789abcdefABCDEF"
        m = rnd.choice([lambda: d(rnd.randrange(1, 5), h), lambda: d(rnd.randrange(0, 4), h) + "." + d(rnd.randrange(1, 4), h),
                        lambda: d(rnd.randrange(1, 4), h) + "."])()
        return rnd.choice(["0x", "0X"]) + m + rnd.choice(["p", "P"]) + rnd.choice(["", "+", "-"]) + d(rnd.randrange(1, 4)) + rnd.choice(["", "f", "L"])
    chars = ["a", "Z", " ", "0", "+", "\\n", "\\t", "\\\\", "\\'", '\\"', "\\0", "\\123", "\\x41", "\\xfF", "\\?", "\\a", "\\e", "\\.", "\\_",
             "\\12345", "\\x", "é", "@", "`", "#", "/", "*", "\\+", "\\*", "\\%", "\\(", "\\ ", "\\$", "\\8", "\\'"]
    if r < 0.82:
        n = rnd.choice([1, 1, 1, 2, 3, 4])
        body = "".join(rnd.choice(chars) for _ in range(n))
        return rnd.choice(["", "", "L", "u", "U", "u8"]) + "'" + body + "'"
    body = "".join(rnd.choice(chars + ["'"]) for _ in range(rnd.randrange(0, 12)))
    return rnd.choice(["", "", "L", "u", "U", "u8"]) + '"' + body + '"'


def edit(rnd, s):
    if not s:
        return s
    i = rnd.randrange(len(s))
    r = rnd.random()
    ch = rnd.choice(ALPHA + "89gGzZ_$ ")
    if r < 0.33:
        return s[:i] + s[i + 1:]
    if r < 0.66:
        return s[:i] + ch + s[i:]
    return s[:i] + ch + s[i + 1:]


def run_shard(spec):
    S = sut.load()
    res = {"evaluations": 0, "nontrivial_distinct": 0, "hashes": [], "violations": [], "samples": [],
           "counters": {"literals_accepted": 0, "malformed_checked": 0, "constants_checked": 0, "kf_K22": 0,
                        "kf_K22_not_reproduced": 0, "by_kind": {}}}
    cnt = res["counters"]
    ob = Observer()
    parser = S.CParser()
    hs = set()

    def run(s, use_parser):
        v = judge(ob, s, cnt, parser if use_parser else None)
        res["evaluations"] += 1
        if v is not None and len(res["violations"]) < 60:
            res["violations"].append(v)

    if spec["mode"] == "strings":
        A = len(ALPHA)
        idx = 0
        for L in range(1, spec["maxlen"] + 1):
            for tup in itertools.product(ALPHA, repeat=L):
                idx += 1
                if idx % spec["nshards"] != spec["shard"]:
                    continue
                s = "".join(tup)
                run(s, True)
                if L >= 2:
                    res["nontrivial_distinct"] += 1
        # quoted strings of total length maxlen+1 (every 3- / 5-symbol body between matching quotes)
        for q in "'\"":
            for tup in itertools.product(ALPHA, repeat=spec["maxlen"] - 1):
                idx += 1
                if idx % spec["nshards"] != spec["shard"]:
                    continue
                run(q + "".join(tup) + q, True)
                res["nontrivial_distinct"] += 1
        for s in ("/*", "//", "/* c */", "// c"):
            run(s, False)
        res["samples"].append({"strings": ["0x1p3", "'\\x'", "08", "1e+", "u8'a'"], "alphabet": ALPHA})
    else:
        rnd = random.Random(spec["rseed"])
        for i in range(spec["n"]):
            s = rand_literal(rnd)
            if "\n" in s:
                continue
            for t in (s, edit(rnd, s), edit(rnd, edit(rnd, s))):
                if "\n" in t or not t:
                    continue
                run(t, True)
                hs.add(hash(t) & ((1 << 56) - 1))
            if i == 3:
                res["samples"].append({"random_literal": s})
    res["hashes"] = sorted(hs)
    res["kf_counts"] = {"K22": cnt["kf_K22"]}
    return res


def summarize(results, tier, seed):
    tot = {"literals_accepted": 0, "malformed_checked": 0, "constants_checked": 0, "kf_K22": 0, "kf_K22_not_reproduced": 0}
    kinds = {}
    for r in results:
        c = r.get("counters", {})
        for k in tot:
            tot[k] += c.get(k, 0)
        for k, v in c.get("by_kind", {}).items():
            kinds[k] = kinds.get(k, 0) + v
    return {"monitors": {"literal_monitor": tot, "accepted_by_kind": kinds},
            "exhaustive_parts": [f"all strings of length <= {4 if tier == "quick" else 6} over {len(ALPHA)} symbols"]}


def replay(rec):
    S = sut.load()
    cnt = {"literals_accepted": 0, "malformed_checked": 0, "constants_checked": 0, "kf_K22": 0, "kf_K22_not_reproduced": 0, "by_kind": {}}
    v = judge(Observer(), rec["case"]["string"], cnt, S.CParser())
    return [v] if v else []
