"""C19 - every fake libc header preprocesses and parses via parse_file.

Monitors: API boundary (parse_file must return), sys.addaudithook on
subprocess.Popen (exact argv handed to cpp), differential monitor against the
same pipeline run by hand (cpp + CParser.parse)."""
import os
import random
import re
import shutil
import subprocess
import sys
import tempfile

from .. import sut
from ..nf import first_diff, nf

ID = "C19"
LEVEL = "exploration"
RULE = ("exhaustive: every *.h under utils/fake_libc_include (discovered from the working tree) x {-std=c99, c11, gnu99, "
        "gnu11} x {cpp_args as list, cpp_args as str (include dir through CPATH)}, each followed by one declaration and "
        "one sizeof per typedef name found in _fake_typedefs.h by an independent regex; random subsets (2-20 headers, "
        "random order); every helper header (_fake_defines.h, _fake_typedefs.h, X11/_X11_fake_*.h) included directly and first, "
        "followed by every other header. Non-trivial: the preprocessed text declares >= 1 typedef; distinct = distinct (header set, "
        "order, dialect, form).")
ASSUMPTIONS = ["the system cpp (gcc 12) is the preprocessor", "typedef names are read from _fake_typedefs.h with a regex "
               "(typedef <anything> NAME;)"]
SHARD_TIMEOUT = {"quick": 900, "thorough": 3000}
DIALECTS = ["-std=c99", "-std=c11", "-std=gnu99", "-std=gnu11"]
# process creation does not scale in the sandbox (~60 cpp runs/s in total whatever the
# parallelism), so few workers and a bounded number of cpp runs on the quick tier
MAX_WORKERS = 6

_popen_log = []
_hook_installed = False


def _install_hook():
    global _hook_installed
    if _hook_installed:
        return
    def hook(event, args):
        if event == "subprocess.Popen":
            _popen_log.append(list(args[1]) if isinstance(args[1], (list, tuple)) else args[1])
    sys.addaudithook(hook)
    _hook_installed = True


def headers():
    out = []
    for root, _, files in os.walk(sut.FAKE_LIBC):
        for f in files:
            if f.endswith(".h"):
                out.append(os.path.relpath(os.path.join(root, f), sut.FAKE_LIBC))
    return sorted(out)


def typedef_names():
    names = []
    for fn in ("_fake_typedefs.h",):
        with open(os.path.join(sut.FAKE_LIBC, fn)) as f:
            for line in f:
                m = re.match(r"\s*typedef\b.*?\b([A-Za-z_]\w*)\s*;\s*$", line)
                if m:
                    names.append(m.group(1))
    return names


def plan(tier, seed):
    n = 6
    specs = [{"name": f"single-{i}", "mode": "single", "shard": i, "nshards": n} for i in range(n)]
    nsub = 12 if tier == "quick" else 500
    for i in range(n):
        specs.append({"name": f"subset-{i}", "mode": "subset", "n": nsub, "rseed": seed * 97 + i})
    for i in range(n):
        specs.append({"name": f"helper-first-{i}", "mode": "helper", "shard": i, "nshards": n})
    return specs


def eval_case(case, workdir, tdnames):
    """case: {headers: [...], dialect, form, use_types: bool}"""
    S = sut.load()
    _install_hook()
    hs = case["headers"]
    body = "".join(f"#include <{h}>\n" for h in hs)
    uses = []
    if case.get("use_types", True):
        for t in tdnames:
            uses.append(f"{t} v_{t}; int s_{t} = sizeof({t});")
    body += "\n".join(uses) + "\n"
    src = os.path.join(workdir, "tu.c")
    with open(src, "w") as f:
        f.write(body)
    env_before = os.environ.get("CPATH")
    if case["form"] == "list":
        args = [case["dialect"], "-nostdinc", "-I", sut.FAKE_LIBC]
        os.environ.pop("CPATH", None)
    elif case["form"] == "str-path-with-blank":
        # a string cpp_args is ONE argument (documented): an include path containing a blank must survive
        link = os.path.join(workdir, "my fake libc")
        if not os.path.islink(link):
            os.symlink(sut.FAKE_LIBC, link)
        args = "-I" + link
        os.environ.pop("CPATH", None)
    else:
        args = case["dialect"]
        os.environ["CPATH"] = sut.FAKE_LIBC
    vs = []
    try:
        del _popen_log[:]
        try:
            ast = S.pycparser.parse_file(src, use_cpp=True, cpp_path="cpp", cpp_args=args)
        except Exception as e:  # noqa: BLE001
            vs.append({"kind": "parse_file-raises", "sig": f"{type(e).__name__}", "case": case,
                       "detail": {"error": f"{type(e).__name__}: {str(e)[:300]}"}})
            return vs, 0
        expect_argv = ["cpp"] + (args if isinstance(args, list) else [args]) + [src]
        seen = _popen_log[0] if _popen_log and isinstance(_popen_log[0], list) else None
        if not _argv_ok(seen, expect_argv):
            vs.append({"kind": "cpp-argv", "sig": "argv", "case": case,
                       "detail": {"expected_program_args_in_order_then_file": expect_argv, "observed": _popen_log[:2]}})
        tds = {e.name for e in ast.ext if type(e).__name__ == "Typedef"}
        if not case.get("manual", True):
            return vs + _types_usable(case, ast, tds, tdnames), len(tds)
        # by hand
        r = subprocess.run(expect_argv, capture_output=True, text=True)
        if r.returncode != 0:
            return vs, 0  # cpp itself failed: nothing to compare (parse_file would have raised too)
        try:
            ast2 = S.CParser().parse(r.stdout, src)
        except Exception as e:  # noqa: BLE001
            vs.append({"kind": "manual-pipeline-raises-but-parse_file-did-not", "sig": "manual", "case": case,
                       "detail": {"error": str(e)[:300]}})
            return vs, 0
        a, b = nf(ast, True), nf(ast2, True)
        if a != b:
            vs.append({"kind": "differs-from-manual-pipeline", "sig": "manual-diff", "case": case,
                       "detail": {"first_difference": first_diff(b, a)}})
        return vs + _types_usable(case, ast, tds, tdnames), len(tds)
    finally:
        if env_before is None:
            os.environ.pop("CPATH", None)
        else:
            os.environ["CPATH"] = env_before


def _argv_ok(seen, expect):
    """cpp must be started as the given program, with every element of cpp_args as ONE argument, in order, and the
    file name as the last argument (extra options a future version may add are tolerated)."""
    if not seen or seen[0] != expect[0] or seen[-1] != expect[-1]:
        return False
    i = 1
    for a in expect[1:-1]:
        while i < len(seen) - 1 and seen[i] != a:
            i += 1
        if i >= len(seen) - 1:
            return False
        i += 1
    return True


def _types_usable(case, ast, tds, tdnames):
    """Every typedef name of _fake_typedefs.h must be usable as a type afterwards."""
    vs = []
    if case.get("use_types", True):
        decls = {e.name: e for e in ast.ext if type(e).__name__ == "Decl" and e.name}
        for t in tdnames:
            d = decls.get("v_" + t)
            ok = False
            if d is not None and type(d.type).__name__ == "TypeDecl" and type(d.type.type).__name__ == "IdentifierType":
                ok = d.type.type.names == [t]
            sz = decls.get("s_" + t)
            ok2 = (sz is not None and sz.init is not None and type(sz.init).__name__ == "UnaryOp"
                   and type(sz.init.expr).__name__ == "Typename")
            if not (ok and ok2 and t in tds):
                vs.append({"kind": "typedef-not-usable", "sig": t, "case": case,
                           "detail": {"name": t, "declared_as_typedef": t in tds, "decl_ok": ok, "sizeof_ok": ok2}})
                break
    return vs


def run_shard(spec):
    res = {"evaluations": 0, "nontrivial_distinct": 0, "hashes": [], "violations": [], "samples": [],
           "counters": {"headers": 0, "typedef_names": 0, "popen_events": 0, "typedefs_seen_max": 0}}
    hdrs = headers()
    tdn = typedef_names()
    res["counters"]["headers"] = len(hdrs)
    res["counters"]["typedef_names"] = len(tdn)
    work = tempfile.mkdtemp(prefix="vf-c19-")
    try:
        cases = []
        if spec["mode"] == "single":
            for i, h in enumerate(hdrs):
                if i % spec["nshards"] != spec["shard"]:
                    continue
                # helper headers that do not pull in _fake_typedefs.h define no typedefs on their own
                with open(os.path.join(sut.FAKE_LIBC, h)) as hf:
                    use = "_fake_typedefs.h" in hf.read() or os.path.basename(h) == "_fake_typedefs.h"
                for di, d in enumerate(DIALECTS):
                    for form in ("list", "str"):
                        quick_skip = spec["tier"] == "quick" and form == "str" and di != i % 4
                        if quick_skip:
                            continue
                        manual = spec["tier"] != "quick" or di == (i + 1) % 4
                        cases.append({"headers": [h], "dialect": d, "form": form, "use_types": use, "manual": manual})
                if spec["tier"] != "quick" or i % 8 == spec["shard"] % 8:
                    cases.append({"headers": [h], "dialect": "", "form": "str-path-with-blank", "use_types": use, "manual": i % 3 == 0})
        elif spec["mode"] == "helper":
            # the helper headers (_fake_defines.h, _fake_typedefs.h and their X11 counterparts: the ones that do not
            # themselves pull in _fake_typedefs.h) are shipped headers too: each of them directly, FIRST, followed by
            # every other header (thorough: also second, and a third header in between)
            def pulls(h):
                with open(os.path.join(sut.FAKE_LIBC, h)) as hf:
                    return "_fake_typedefs.h" in hf.read().replace("_X11_fake_typedefs.h", "") or os.path.basename(h) == "_fake_typedefs.h"
            helpers = [h for h in hdrs if not pulls(h) or os.path.basename(h) == "_fake_typedefs.h"]
            res["counters"]["helper_headers"] = len(helpers)
            k = 0
            for h0 in helpers:
                for h in hdrs:
                    if h == h0:
                        continue
                    k += 1
                    if k % spec["nshards"] != spec["shard"]:
                        continue
                    use = pulls(h) or pulls(h0)
                    cases.append({"headers": [h0, h], "dialect": DIALECTS[k % 4], "form": "list", "use_types": use, "manual": False})
                    if spec["tier"] != "quick":
                        cases.append({"headers": [h, h0], "dialect": DIALECTS[(k + 1) % 4], "form": "str", "use_types": use, "manual": False})
                        h3 = hdrs[(k * 7) % len(hdrs)]
                        cases.append({"headers": [h0, h3, h], "dialect": DIALECTS[(k + 2) % 4], "form": "list",
                                      "use_types": use or pulls(h3), "manual": False})
        else:
            rnd = random.Random(spec["rseed"])
            for _ in range(spec["n"]):
                k = rnd.randrange(2, 21)
                hs = rnd.sample(hdrs, k)
                cases.append({"headers": hs, "dialect": rnd.choice(DIALECTS), "form": rnd.choice(["list", "str", "list", "str", "str-path-with-blank"]),
                              "use_types": True, "manual": True})
        for c in cases:
            vs, ntd = eval_case(c, work, tdn)
            res["evaluations"] += 1
            if ntd >= 1:
                res["nontrivial_distinct"] += 1
            res["counters"]["typedefs_seen_max"] = max(res["counters"]["typedefs_seen_max"], ntd)
            res["counters"]["popen_events"] += 1
            if vs and len(res["violations"]) < 30:
                res["violations"] += vs
            if len(res["samples"]) < 1:
                res["samples"].append({"headers": c["headers"][:5], "dialect": c["dialect"], "cpp_args_form": c["form"],
                                       "argv_seen": _popen_log[:1]})
    finally:
        shutil.rmtree(work, ignore_errors=True)
    return res


def summarize(results, tier, seed):
    tot = {}
    for r in results:
        for k, v in r.get("counters", {}).items():
            tot[k] = max(tot.get(k, 0), v) if k != "popen_events" else tot.get(k, 0) + v
    return {"monitors": {"parse_file": tot}, "dialects": DIALECTS,
            "exhaustive_parts": ["every header x 4 dialects x list cpp_args" + (" x str cpp_args, each compared with the manual pipeline" if tier == "thorough" else "; str form and manual-pipeline comparison on one rotating dialect per header")]}


def replay(rec):
    work = tempfile.mkdtemp(prefix="vf-c19-")
    try:
        return eval_case(rec["case"], work, typedef_names())[0]
    finally:
        shutil.rmtree(work, ignore_errors=True)
