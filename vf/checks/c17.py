"""C17 - the AST (minus coordinates) depends only on the token sequence.

Metamorphic monitor: one token sequence, many layouts (spaces/tabs/newlines, minimal
spacing, linemarkers and #line between arbitrary tokens); one model, three
parenthesisations.  Neutral forms and regenerated text must be identical."""
import hashlib
import random

from .. import sut
from ..gen import cases, corpus, layout as lay, model, mutate
from ..nf import first_diff, nf
from ..ref import lex as rlex

ID = "C17"
LEVEL = "exploration"
RULE = ("token sequences from the model generators (random translation units, expression/declaration/statement batches) "
        "and from the preprocessed corpus (re-tokenised by the reference lexer) x layouts {single line, one token per "
        "line, random whitespace, tabs, minimal spacing, linemarkers/#line between arbitrary tokens}; each model also "
        "rendered with minimal / random-redundant / full parenthesisation (same tree by construction). Non-trivial: "
        ">= 5 tokens and accepted; distinct = distinct (token sequence, layout seed).")
ASSUMPTIONS = ["'#pragma' lines are kept on a line of their own (as cpp emits them)",
               "minimal spacing omits a separator only where the reference lexer says C's longest-match rule re-splits the pair identically"]
SHARD_TIMEOUT = {"quick": 900, "thorough": 3600}


def plan(tier, seed):
    n = 14
    ngen = 160 if tier == "quick" else 1500
    nvar = 6 if tier == "quick" else 11
    specs = [{"name": f"gen-{i}", "mode": "gen", "n": ngen, "nvar": nvar, "rseed": seed * 7919 + i} for i in range(n)]
    specs.append({"name": "corpus", "mode": "corpus", "nvar": 3 if tier == "quick" else 8, "rseed": seed})
    if tier == "thorough":
        for i, _ in enumerate(corpus.big_files()):
            specs.append({"name": f"big-{i}", "mode": "big", "index": i, "nvar": 2, "rseed": seed})
    return specs


def _parse(S, text, fname="f.c"):
    try:
        return ("ok", S.CParser().parse(text, fname))
    except S.ParseError as e:
        return ("perr", str(e))
    except RecursionError:
        return ("rec",)
    except Exception as e:  # noqa: BLE001
        return ("exc", f"{type(e).__name__}: {e}")


def _gen(S, ast):
    try:
        return S.CGenerator().visit(ast)
    except Exception as e:  # noqa: BLE001 - generator failures belong to C07
        return f"<generator raised {type(e).__name__}>"


def check_layouts(toks, directive, rnd, nvar, origin, counters):
    """Baseline = single-line layout; every other layout must give the same NF and text."""
    S = sut.load()
    base = lay.layout(toks, directive, "single", random.Random(1))
    b = _parse(S, base.text)
    vs = []
    if b[0] != "ok":
        # not accepted in the single-space layout: it must then be rejected in the tightest layout as well
        alt = lay.layout(toks, directive, "minimal", random.Random(1))
        a = _parse(S, alt.text)
        if a[0] != "ok":
            return None, []
        vs.append({"kind": "layout-variant-rejected", "sig": "single:" + str(b[1] if len(b) > 1 else b[0]).split(": ", 1)[-1][:30],
                   "case": {"tokens": toks, "directive": sorted(directive), "style": "single", "layout_seed": 1, "marker_p": 0.12,
                            "origin": origin, "baseline": "minimal"},
                   "detail": {"outcome": b[:2], "variant_text": base.text[:600], "accepted_as": alt.text[:300]}})
        b = a
    bn = nf(b[1])
    bg = _gen(S, b[1])
    styles = ["lines", "random", "minimal", "marked", "tabs", "samepos", "marked", "random", "marked", "minimal", "marked"]
    for vi in range(nvar):
        style = styles[vi % len(styles)]
        sd = rnd.randrange(1 << 30)
        mp = rnd.choice([0.05, 0.15, 0.4])
        L = lay.layout(toks, directive, style, random.Random(sd), marker_p=mp)
        v = _parse(S, L.text)
        counters["layouts"] += 1
        counters["by_style"][style] = counters["by_style"].get(style, 0) + 1
        case = {"tokens": toks, "directive": sorted(directive), "style": style, "layout_seed": sd, "marker_p": mp, "origin": origin}
        if v[0] != "ok":
            vs.append({"kind": "layout-variant-rejected", "sig": style + ":" + str(v[1]).split(": ", 1)[-1][:30], "case": case,
                       "detail": {"outcome": v[:2], "variant_text": L.text[:600]}})
            continue
        vn = nf(v[1])
        if vn != bn:
            vs.append({"kind": "layout-changes-AST", "sig": style + ":" + (first_diff(bn, vn) or {}).get("path", "?")[-40:], "case": case,
                       "detail": {"first_difference": first_diff(bn, vn), "variant_text": L.text[:600]}})
            continue
        vg = _gen(S, v[1])
        if vg != bg:
            vs.append({"kind": "layout-changes-generated-text", "sig": style, "case": case, "detail": {"variant_text": L.text[:600]}})
    return len(toks), vs


def check_parens(recipe, counters):
    """One model, three parenthesisations: same tree by construction."""
    S = sut.load()
    outs = []
    for mode in ("min", "rand", "full"):
        r = dict(recipe)
        r["render"] = mode
        r["style"] = "single"
        c = cases.build(r)
        p = _parse(S, c.text)
        outs.append((mode, c, p))
    vs = []
    if outs[0][2][0] != "ok":
        return vs
    bn = nf(outs[0][2][1])
    for mode, c, p in outs[1:]:
        counters["paren_variants"] += 1
        case = {"recipe": dict(recipe, render=mode), "paren_variant_of": "min"}
        if p[0] != "ok":
            vs.append({"kind": "redundant-parentheses-rejected", "sig": mode, "case": case,
                       "detail": {"outcome": p[:2], "text": c.text[:600]}})
        elif nf(p[1]) != bn:
            vs.append({"kind": "redundant-parentheses-change-AST", "sig": mode, "case": case,
                       "detail": {"first_difference": first_diff(bn, nf(p[1])), "text": c.text[:600]}})
    return vs


def gen_recipes(rnd, n):
    out = []
    for i in range(n):
        r = rnd.random()
        sd = rnd.randrange(1 << 30)
        if r < 0.5:
            out.append({"k": "tu", "seed": sd})
        elif r < 0.7:
            out.append({"k": "rexprs", "seed": sd, "count": 12, "depth": rnd.choice([2, 3, 5]),
                        "ctx": rnd.choice(list(cases.EXPR_CONTEXTS))})
        elif r < 0.85:
            out.append({"k": "rdecls", "seed": sd, "count": 6})
        else:
            out.append({"k": "rstmts", "seed": sd, "count": 2, "depth": rnd.choice([2, 3, 5])})
    return out


def corpus_tokens(text):
    """Token list of a preprocessed file via the reference lexer: linemarkers dropped, pragmas kept as directive tokens."""
    toks = []
    directive = set()
    for ln in text.split("\n"):
        st = ln.strip()
        if st.startswith("#"):
            body = st[1:].strip()
            if body.startswith("pragma"):
                directive.add(len(toks))
                toks.append("#pragma " + body[len("pragma"):].strip())
            continue
        ts, errs = rlex.scan(ln)
        if errs:
            return None, None
        toks.extend(t.value for t in ts)
    return toks, directive


def run_shard(spec):
    res = {"evaluations": 0, "nontrivial_distinct": 0, "hashes": [], "violations": [], "samples": [],
           "counters": {"layouts": 0, "paren_variants": 0, "token_sequences": 0, "by_style": {}}}
    hs = set()
    cnt = res["counters"]
    rnd = random.Random(spec["rseed"])

    def one(toks, directive, origin):
        n, vs = check_layouts(toks, directive, rnd, spec["nvar"], origin, cnt)
        if n is None:
            return
        cnt["token_sequences"] += 1
        res["evaluations"] += spec["nvar"]
        if n >= 5:
            hs.add(int.from_bytes(hashlib.blake2b(" ".join(toks).encode("utf-8", "replace"), digest_size=7).digest(), "big"))
        if vs and len(res["violations"]) < 40:
            res["violations"] += vs
        if len(res["samples"]) < 1:
            res["samples"].append({"tokens": toks[:40], "origin": origin})

    if spec["mode"] == "gen":
        for r in gen_recipes(rnd, spec["n"]):
            c = cases.build(dict(r, style="single"))
            one(c.E.toks, c.E.directive, {"recipe": r})
            if r["k"] != "tu" or rnd.random() < 0.3:
                vs = check_parens(r, cnt)
                res["evaluations"] += 2
                if vs and len(res["violations"]) < 40:
                    res["violations"] += vs
    elif spec["mode"] == "corpus":
        from ..gen import extras
        for name, text in corpus.zoo() + corpus.repo_files() + extras.TEXTS:
            toks, directive = corpus_tokens(text)
            if toks:
                one(toks, directive, {"file": name})
    elif spec["mode"] == "big":
        name, text = corpus.big_files()[spec["index"]]
        toks, directive = corpus_tokens(text)
        if toks:
            one(toks, directive, {"file": name})
    res["hashes"] = sorted(hs)
    return res


def summarize(results, tier, seed):
    tot = {"layouts": 0, "paren_variants": 0, "token_sequences": 0}
    styles = {}
    for r in results:
        c = r.get("counters", {})
        for k in tot:
            tot[k] += c.get(k, 0)
        for k, v in c.get("by_style", {}).items():
            styles[k] = styles.get(k, 0) + v
    return {"monitors": {"relayout": tot, "layouts_by_style": styles}}


def replay(rec):
    c = rec["case"]
    cnt = {"layouts": 0, "paren_variants": 0, "by_style": {}}
    if "recipe" in c:
        return check_parens(dict(c["recipe"], render="min"), cnt)
    S = sut.load()
    toks, directive = c["tokens"], set(c["directive"])
    base = lay.layout(toks, directive, c.get("baseline", "single"), random.Random(1))
    b = _parse(S, base.text)
    L = lay.layout(toks, directive, c["style"], random.Random(c["layout_seed"]), marker_p=c.get("marker_p", 0.12))
    v = _parse(S, L.text)
    print("baseline:", b[0], "variant:", v[0] if v[0] != "perr" else v)
    if b[0] != "ok":
        return []
    if v[0] != "ok" or nf(v[1]) != nf(b[1]) or _gen(S, v[1]) != _gen(S, b[1]):
        return [{"kind": rec["kind"], "detail": {"variant_text": L.text[:800]}}]
    return []
