"""C18 - structurally malformed input is always rejected.

Acceptance monitor with an independent structure oracle: a reference bracket matcher
over the reference token stream decides whether an input is balanced; any input that is
unbalanced, contains non-token text or a foreign directive must raise ParseError."""
import hashlib
import itertools
import random

from .. import sut
from ..gen import cases, corpus, layout as lay
from ..ref import lex as rlex
from . import c17

ID = "C18"
LEVEL = "exploration"
RULE = ("for accepted programs (model generators + corpus zoo): every single bracket token deleted, duplicated or swapped "
        "for another bracket kind (exhaustive per program), and one injection of each of @ ` \\ /* // ' \" #define #include "
        "#if #error # at sampled token boundaries (mutants that the reference lexer finds lexically clean are skipped and "
        "counted); all bracket strings of length <= 6 (quick) / <= 8 (thorough) over ()[]{} with and without operand "
        "fillers in expression, declarator, initializer and statement contexts: only balanced strings may be accepted. "
        "Non-trivial: the mutant differs from an accepted program by exactly one structural edit; distinct = distinct texts.")
ASSUMPTIONS = ["balance is decided by an independent matcher over the reference lexer's tokens"]
SHARD_TIMEOUT = {"quick": 900, "thorough": 3600}
BR = ["(", ")", "[", "]", "{", "}"]
PAIR = {")": "(", "]": "[", "}": "{"}
INJECT = ["@", "`", "\\", "/*", "//", "'", '"', "#define X 1\n", "#include <x.h>\n", "#if 1\n", "#error e\n", "#\n", "/* c */", "// c\n",
          "#pragmatic ) ] }\n", "#pragma_once\n", "#pragma2 x\n", "# pragmas x\n", "#lineno 5\n", "#line5\n", "#linemarker\n", "#undef X\n",
          "#warning w\n", "#ident \"x\"\n", "#elif 0\n", "#endif\n", "#pragma( x\n",
          # characters that Python's str.isspace()/\\s treat as blank but that are neither C white space nor tokens
          "\xa0", "\x1c", "\x1f", "\x85", "\u2028", "\u2029", "\u3000", "\u2003", "\u1680", "\r", "\x00", "\ufeff", "\u200b"]


ALT_SPELLINGS = {"<:": "[", ":>": "]", "<%": "{", "%>": "}", "??(": "[", "??)": "]", "??<": "{", "??>": "}"}


def balanced(tokens):
    st = []
    for t in tokens:
        t = ALT_SPELLINGS.get(t, t)
        if t in ("(", "[", "{"):
            st.append(t)
        elif t in PAIR:
            if not st or st.pop() != PAIR[t]:
                return False
    return not st


def plan(tier, seed):
    n = 12
    ngen = 14 if tier == "quick" else 400
    specs = [{"name": f"mut-{i}", "mode": "mut", "n": ngen, "rseed": seed * 7919 + i, "ninj": 6 if tier == "quick" else 12} for i in range(n)]
    L = 6 if tier == "quick" else 8
    for i in range(4):
        specs.append({"name": f"brackets-{i}", "mode": "brackets", "maxlen": L, "shard": i, "nshards": 4})
    return specs


def judge(text, why, case):
    """Parse a malformed input; anything but ParseError is a violation."""
    S = sut.load()
    try:
        S.CParser().parse(text, "m.c")
    except S.ParseError:
        return None
    except RecursionError:
        return None
    except Exception as e:  # noqa: BLE001
        return {"kind": "malformed-input-not-rejected-with-ParseError", "sig": type(e).__name__, "case": case,
                "detail": {"why_malformed": why, "raised": f"{type(e).__name__}: {str(e)[:200]}", "text": text[:600]}}
    return {"kind": "malformed-input-accepted", "sig": why[:40], "case": case,
            "detail": {"why_malformed": why, "text": text[:800]}}


def _foreign_directive(ln):
    """A line that is a preprocessor directive other than #line / linemarker / #pragma (by its full directive name)."""
    st = ln.strip()
    if not st.startswith("#"):
        return False
    body = st[1:].lstrip(" \t")
    j = 0
    while j < len(body) and (body[j].isalnum() or body[j] in "_$"):
        j += 1
    name = body[:j]
    if name in ("pragma", "line"):
        return False
    if name.isdigit() and name:
        return False
    return True


def bracket_mutants(toks):
    for i, t in enumerate(toks):
        if t not in BR:
            continue
        yield ("delete", i, toks[:i] + toks[i + 1:])
        yield ("duplicate", i, toks[:i] + [t] + toks[i:])
        for o in BR:
            if o != t and ((o in PAIR) == (t in PAIR) or True):
                yield (f"swap->{o}", i, toks[:i] + [o] + toks[i + 1:])
        # alternative spellings of the OTHER brackets (ISO 646 digraphs, trigraphs): whether or not an implementation
        # knows them, a bracket replaced by the spelling of a different bracket leaves the nesting broken
        for alt, means in ALT_SPELLINGS.items():
            if means != t:
                yield (f"swap->{alt}", i, toks[:i] + [alt] + toks[i + 1:])


def render(toks, directive_idx):
    return lay.layout(toks, directive_idx, "single", random.Random(0)).text


def run_shard(spec):
    S = sut.load()
    res = {"evaluations": 0, "nontrivial_distinct": 0, "hashes": [], "violations": [], "samples": [],
           "counters": {"bracket_mutants": 0, "injections": 0, "skipped_lexically_clean": 0, "skipped_balanced": 0,
                        "bracket_strings": 0, "bracket_strings_accepted_balanced": 0, "programs": 0}}
    cnt = res["counters"]
    hs = set()

    def add(v):
        if v is not None and len(res["violations"]) < 40:
            res["violations"].append(v)

    if spec["mode"] == "mut":
        rnd = random.Random(spec["rseed"])
        progs = []
        for r in c17.gen_recipes(rnd, spec["n"]):
            c = cases.build(dict(r, style="single", render="min"))
            progs.append((c.E.toks, set(c.E.directive), {"recipe": r}))
        for name, text in corpus.zoo()[spec["rseed"] % 12::12]:
            toks, directive = c17.corpus_tokens(text)
            if toks:
                progs.append((toks, directive, {"zoo": name}))
        for toks, directive, origin in progs:
            try:
                S.CParser().parse(render(toks, directive), "m.c")
            except Exception:  # noqa: BLE001
                continue
            cnt["programs"] += 1
            if len(toks) > 600:
                continue
            for kind, i, mt in bracket_mutants(toks):
                if balanced(mt):
                    cnt["skipped_balanced"] += 1
                    continue
                d2 = {j if j < i else (j + (len(mt) - len(toks))) for j in directive}
                text = render(mt, d2)
                cnt["bracket_mutants"] += 1
                res["evaluations"] += 1
                res["nontrivial_distinct"] += 1
                add(judge(text, f"bracket {kind} at token {i}: brackets do not nest/balance",
                          {"text": text, "origin": origin, "edit": kind, "at": i}))
                if len(res["samples"]) < 1 and kind == "delete":
                    res["samples"].append({"edit": kind, "text": text[:200]})
            for _ in range(spec["ninj"]):
                j = rnd.randrange(len(toks) + 1)
                inj = rnd.choice(INJECT)
                mt = toks[:j] + [inj] + toks[j:]
                d2 = {k if k < j else k + 1 for k in directive}
                if inj.endswith("\n"):
                    d2.add(j)
                    text = lay.layout([t if k != j else "#pragma __placeholder__" for k, t in enumerate(mt)], d2, "single",
                                      random.Random(0)).text.replace("#pragma __placeholder__", inj.rstrip("\n"))
                else:
                    text = render(mt, d2)
                _, errs = rlex.scan(text)
                foreign = any(_foreign_directive(ln) for ln in text.split("\n"))
                if not errs and not foreign:
                    cnt["skipped_lexically_clean"] += 1
                    continue
                cnt["injections"] += 1
                res["evaluations"] += 1
                hs.add(int.from_bytes(hashlib.blake2b(text.encode("utf-8", "replace"), digest_size=7).digest(), "big"))
                add(judge(text, f"non-token text / foreign directive {inj.strip()!r} injected at token boundary {j}",
                          {"text": text, "origin": origin, "edit": "inject " + inj.strip(), "at": j}))
            # junk inside linemarker / #line lines (outside literals and #pragma text)
            for _ in range(max(2, spec["ninj"] // 2)):
                sd = rnd.randrange(1 << 30)
                L = lay.layout(toks, directive, "marked", random.Random(sd), marker_p=0.3)
                lines = L.text.split("\n")
                cand = [k for k, ln in enumerate(lines) if ln.startswith("#") and not ln.lstrip("# \t").startswith("pragma")]
                if not cand:
                    continue
                k = rnd.choice(cand)
                junk = rnd.choice(["@", "`", "\\", "/* c */", "// c", "'", "}", "((", "]", "@@ x"])
                ln = lines[k]
                where = rnd.choice(["end", "end", "mid"])
                if where == "mid" and '"' in ln:
                    q = ln.index('"')
                    lines[k] = ln[:q] + junk + " " + ln[q:]
                else:
                    lines[k] = ln + " " + junk
                text = "\n".join(lines)
                cnt["injections"] += 1
                res["evaluations"] += 1
                hs.add(int.from_bytes(hashlib.blake2b(text.encode("utf-8", "replace"), digest_size=7).digest(), "big"))
                add(judge(text, f"non-token text / stray bracket {junk!r} inside the linemarker line {ln!r}",
                          {"text": text, "origin": origin, "edit": "directive-junk " + junk}))
    else:
        contexts = [("expr", "void f(void){ x ", " ; }"), ("declarator", "int x ", " ;"), ("init", "int x = ", " ;"),
                    ("stmt", "void f(void){ ", " }")]
        idx = 0
        for L in range(1, spec["maxlen"] + 1):
            for tup in itertools.product(BR, repeat=L):
                idx += 1
                if idx % spec["nshards"] != spec["shard"]:
                    continue
                ok = balanced(tup)
                for filler in (False, True):
                    if filler:
                        body = " ".join(t + (" a" if t in "([{" else "") for t in tup)
                    else:
                        body = " ".join(tup)
                    for cname, pre, suf in contexts:
                        text = pre + body + suf
                        cnt["bracket_strings"] += 1
                        res["evaluations"] += 1
                        if ok:
                            # balanced strings may be accepted or rejected (grammar decides); nothing to judge
                            try:
                                S.CParser().parse(text, "m.c")
                                cnt["bracket_strings_accepted_balanced"] += 1
                            except S.ParseError:
                                pass
                            except Exception as e:  # noqa: BLE001
                                add({"kind": "balanced-bracket-string-raises-non-ParseError", "sig": type(e).__name__,
                                     "case": {"text": text}, "detail": {"raised": f"{type(e).__name__}: {e}", "text": text}})
                            continue
                        res["nontrivial_distinct"] += 1
                        add(judge(text, "unbalanced bracket string in " + cname + " context", {"text": text}))
        res["samples"].append({"bracket_context_example": "void f(void){ x ( a [ a ] ) ; }"})
    res["hashes"] = sorted(hs)
    return res


def summarize(results, tier, seed):
    tot = {}
    for r in results:
        for k, v in r.get("counters", {}).items():
            tot[k] = tot.get(k, 0) + v
    return {"monitors": {"acceptance_monitor": tot},
            "exhaustive_parts": [f"all bracket strings of length <= {6 if tier == 'quick' else 8} x 2 fillings x 4 contexts",
                                 "every single-bracket deletion/duplication/kind swap of each accepted program"]}


def replay(rec):
    v = judge(rec["case"]["text"], rec["detail"].get("why_malformed", "?"), rec["case"])
    return [v] if v else []
