"""C03 - declaration ASTs encode C declarator semantics for every declared name.

Reference-model monitor: declarator text is composed inside-out from a derivation list
(my transcription of C99 6.7.5); the AST's type chain is read back and compared."""
from ..gen import cases
from . import _modelcheck as mc

ID = "C03"
LEVEL = "exploration"
RULE = ("bounded-exhaustive: every derivation sequence of length <= 3 (quick) / <= 4 (thorough) over 8 variants "
        "{*, *const, *volatile restrict, [], [3], (void), (int x, char *, ...), ()} in 8 named-declaration contexts "
        "(file, typedef, member, parameter, block, second declarator, for-init, K&R parameter) and 6 type-name contexts "
        "(cast, sizeof, _Alignof, compound literal, abstract parameter, _Alignas), plus the parameter-only forms "
        "([static const 2], [*], [restrict static n+1], [const *], [restrict volatile *], [const], (T0), (T0, const T1 *) with "
        "typedef names) to length 2/3 in named and abstract parameters; random declarations (all C99 6.7.2p2 specifier "
        "multisets in shuffled order, struct/union/enum bodies with bit-fields/anonymous members/_Alignas/pragmas/static "
        "assertions, _Atomic(T), multi-declarator lists, nested designated initializers) and random whole translation "
        "units. Non-trivial: the declaration has >= 1 derivation or a non-basic specifier; distinct = distinct "
        "(sequence, context) / distinct source texts.")
ASSUMPTIONS = ["inside-out declarator composition as in C99 6.7.5 (validated against gcc typedef-chain twins in C01/C08 streams)",
               "qualifiers of one level compared as sets (duplicates are idempotent, order has no meaning)"]
SHARD_TIMEOUT = {"quick": 600, "thorough": 3000}
BATCH = 60


def plan(tier, seed):
    maxlen = 3 if tier == "quick" else 4
    recipes = []
    seqs = [list(s) for s in cases.deriv_sequences(maxlen, 8)]
    for ctx in cases.DECL_CONTEXTS + cases.TN_CONTEXTS:
        for s in range(0, len(seqs), BATCH):
            recipes.append({"k": "derivs", "ctx": ctx, "seqs": seqs[s:s + BATCH], "render": "min", "seed": seed + s,
                            "style": ["single", "minimal", "random"][(s // BATCH) % 3]})
    from ..gen import gens
    pseqs = [list(s) for s in cases.deriv_sequences(2 if tier == "quick" else 3, gens.N_DERIV_VARIANTS) if any(i >= 8 for i in s)]
    for ctx in ("param", "abstract-param"):
        # C11 6.7.7: an abstract declarator has no '[type-qualifier-list *]' form
        ps = pseqs if ctx == "param" else [q for q in pseqs if 12 not in q and 13 not in q]
        for s in range(0, len(ps), BATCH):
            recipes.append({"k": "derivs", "ctx": ctx, "seqs": ps[s:s + BATCH], "render": "min", "seed": seed + s,
                            "style": ["single", "minimal", "random"][(s // BATCH) % 3]})
    nrand = 600 if tier == "quick" else 4000
    for i in range(nrand):
        recipes.append({"k": "rdecls", "seed": seed * 100003 + i, "count": 12, "render": ["min", "rand"][i % 2],
                        "style": ["single", "random", "minimal", "lines"][i % 4]})
    for i in range(nrand):
        recipes.append({"k": "tu", "seed": seed * 100019 + i})
    nsh = 16
    return [{"name": f"decl-{i}", "recipes": recipes[i::nsh]} for i in range(nsh)] + [{"name": "labelled", "mode": "labelled", "recipes": []}]


# a declaration directly after a label / case / default (accepted by the parser as in C23): it must declare exactly what
# the same declaration declares when an empty statement separates it from the label (metamorphic twin)
LABELLED = [
    ("void g(int sel) { retry: %s static const char *msg, sep = ','; again: %s int n = 1, *p = &n, w[2]; if (sel) goto retry; }", 2),
    ("int k(int kind, int v) { switch (kind) { case 0: %s int twice = v * 2, *pt = &twice, arr[2]; return twice; case 1: v++; "
     "default: %s static const char *m2, s2 = ','; return v; } }", 2),
    ("void h(void) { a: b: %s struct P { int x; } p1, *p2, p3[2]; c: %s typedef int T1, *T2; d: %s enum { E1 } e1, e2; }", 3),
    ("void q(int c) { if (c) l1: %s; switch (c) { default: %s register int r1, r2 = 2; { case 2: %s int (*fp)(int), arr2[3][2]; } } }", 3),
]


def _decls_of(ast):
    from ..nf import nf, walk
    out = []
    for n in walk(ast):
        if type(n).__name__ in ("Decl", "Typedef"):
            out.append((type(n).__name__, n.name, nf(n, coords=False)))
    return out


def run_labelled():
    from .. import sut
    from ..nf import first_diff
    S = sut.load()
    res = {"evaluations": 0, "nontrivial_distinct": 0, "hashes": [], "violations": [], "samples": [],
           "counters": {"labelled_declarations": 0}, "kf_counts": {}}
    for k, (tmpl, nslots) in enumerate(LABELLED):
        plain = tmpl % ((";",) * nslots)
        lab = tmpl % (("",) * nslots)
        try:
            want = _decls_of(S.CParser().parse(plain, "l.c"))
        except Exception:  # noqa: BLE001 - the twin itself is plain C99 and covered by the main stream
            continue
        case = {"labelled_template": k, "text": lab}
        res["evaluations"] += 1
        res["nontrivial_distinct"] += 1
        try:
            got = _decls_of(S.CParser().parse(lab, "l.c"))
        except S.ParseError:
            continue        # rejecting the C23 form is allowed; reading it differently is not
        except Exception as e:  # noqa: BLE001
            res["violations"].append({"kind": "rejected-valid-declaration", "sig": type(e).__name__, "case": case,
                                      "detail": {"error": f"{type(e).__name__}: {e}"}})
            continue
        res["counters"]["labelled_declarations"] += len(got)
        if got != want:
            res["violations"].append({"kind": "declaration-differs-from-C-reading", "sig": "after-label", "case": case,
                                      "detail": {"declared_with_empty_statement_between": [(a, b) for a, b, _ in want],
                                                 "declared_directly_after_label": [(a, b) for a, b, _ in got],
                                                 "first_difference": first_diff([c for _, _, c in want], [c for _, _, c in got])}})
    return res


def _count(r, case):
    if r["k"] == "derivs":
        return len(r["seqs"])
    if r["k"] == "rdecls":
        return r["count"]
    return 1


def run_shard(spec):
    if spec.get("mode") == "labelled":
        return run_labelled()
    return mc.run_recipes(spec, "rejected-valid-declaration", "declaration-differs-from-C-reading", _count)


def summarize(results, tier, seed):
    mon = mc.merge_counters(results)
    mon["labelled_declaration_twins"] = sum(r.get("counters", {}).get("labelled_declarations", 0) for r in results)
    return {"monitors": mon,
            "exhaustive_parts": [f"all derivation sequences of length <= {3 if tier == 'quick' else 4} over 8 variants x 14 contexts"]}


def replay(rec):
    if "labelled_template" in rec["case"]:
        return run_labelled()["violations"]
    return mc.eval_recipe(rec["case"]["recipe"], "rejected-valid-declaration", "declaration-differs-from-C-reading")[3]
