"""C09 - tokenisation is lossless, longest-match and position-exact.

Token-trace monitor on the standalone CLexer: every token() call is recorded (type,
spelling, line, column, lexer.filename) together with the error / brace / type-lookup
callbacks fired; the trace is compared with the laid-out token sequence, and on arbitrary
text with a progress + conservation rule (input = tokens + whitespace + directives +
reported text)."""
import itertools
import random

from .. import monitors, sut
from ..gen import layout as lay
from ..ref import lex as rlex

ID = "C09"
LEVEL = "exploration"
RULE = ("laid-out part: all ordered pairs of the vocabulary (every keyword, every punctuator, identifiers incl. '$', type "
        "names, every literal kind with suffix/prefix variants, '#pragma' lines) and random sequences of 1-60 vocabulary "
        "tokens (pragma lines drawn from 27 fixed texts - incl. every short substring of 'pragma', '#', linemarker- and literal-like "
        "texts - and random compositions of those letters, blanks, tabs, brackets, quotes) x layouts {single, one per line, random, tabs, minimal (no separator where C's longest match allows), "
        "linemarkers/#line between arbitrary tokens}; progress part: every string of length <= 4 (quick) / <= 5 (thorough) "
        "over the 20-character alphabet a 0 1 8 x . ' \" \\ / * # + - < = space newline e L with a recording error callback. "
        "Non-trivial: >= 2 tokens / >= 2 characters; distinct by construction (exhaustive parts) or by text.")
ASSUMPTIONS = ["the standalone CLexer is driven with a type_lookup_func that knows the names T and U_t",
               "'#' is not part of the vocabulary (after preprocessing it only appears in directives)"]
SHARD_TIMEOUT = {"quick": 900, "thorough": 3600}
TYPE_NAMES = {"T", "U_t"}
ALPHA20 = "a018x.'\"\\/*#+-<= \neL"


def vocabulary():
    v = []
    for k in rlex.KEYWORDS:
        v.append((rlex.KEYWORD_KIND[k], k))
    for p, kind in rlex.PUNCT.items():
        v.append((kind, p))
    for name in ["x", "foo_bar", "$dollar", "a1", "_u", "L", "u8", "U", "e", "p", "x1p3", "uu", "l", "size_t", "int_", "caseX", "_Bool1"]:
        v.append(("ID", name))
    for name in sorted(TYPE_NAMES):
        v.append(("TYPEID", name))
    for s in ["0", "1", "42", "017", "0x1F", "0XaB", "0b101", "7u", "7UL", "7ll", "7LLU", "0x7fULL", "9lu", "0u",
              "1.5", ".5", "2.", "1e3", "1.5e-3f", "2.0L", "1E+2l", "0x1.8p3", "0x1p-2f", "0x.8p1L", "00.5", "019.5", "08e1",
              "'a'", "'\\n'", "'\\''", "'\\x41'", "'\\101'", "'\\\\'", "L'w'", "u'x'", "U'y'", "u8'z'", "'ab'", "'abcd'", "'\\0a'",
              '"s"', '""', '"a\\"b"', '"\\\\"', 'L"w"', 'u8"p"', 'u"p"', 'U"p"', '"tab\\there"', '"#notdirective"', '"/*notcomment*/"']:
        k = rlex.classify_literal(s)
        assert k and k != "PREFIXED_MULTICHAR", s
        v.append((k, s))
    return v


PRAGMAS = ["#pragma once", "#pragma", "#pragma omp parallel for private(i)", "#pragma pack(push, 1)", "#pragma weird @ ` $ \\ text"]
# bodies that recur inside the directive's own spelling ('pragma', '#', blanks): a lexer that locates the text by searching for
# it instead of by scanning reports a column inside the keyword (round-6 seed R6_C09_A)
PRAGMAS += ["#pragma " + b for b in ("a", "g", "p", "m", "r", "ma", "ra", "ag", "rag", "pragma", "pragma pragma", "agma x", "#", "# pragma",
                                    "#pragma once", "p r a g m a", "line 5", "1 \"f.c\"", "\"str\"", "'c'", "//x", "/* c */")]
_PRAGMA_ALPHA = ["a", "g", "m", "p", "r", "x", "#", " ", "\t", "(", ")", ",", "1", "\"", "@", "pragma", "once"]


def random_pragma(rnd):
    body = "".join(rnd.choice(_PRAGMA_ALPHA) for _ in range(rnd.randrange(1, 7))).strip()
    return "#pragma " + body if body else "#pragma"


def plan(tier, seed):
    n = 16
    specs = [{"name": f"pairs-{i}", "mode": "pairs", "shard": i, "nshards": n} for i in range(n)]
    nseq = 1500 if tier == "quick" else 12000
    for i in range(8):
        specs.append({"name": f"seq-{i}", "mode": "seq", "n": nseq, "rseed": seed * 977 + i})
    L = 4 if tier == "quick" else 5
    for i in range(8):
        specs.append({"name": f"progress-{i}", "mode": "progress", "maxlen": L, "shard": i, "nshards": 8})
    for i in range(4):
        specs.append({"name": f"literals-{i}", "mode": "literals", "maxlen": 4 if tier == "quick" else 5, "shard": i, "nshards": 4})
    return specs


LIT_ALPHA = "0178 9afxXuUlL.ep+-bB".replace(" ", "")


class Trace:
    """Token-trace monitor around a standalone CLexer."""

    def __init__(self):
        S = sut.load()
        self.errors = []
        self.braces = []
        self.lookups = []
        self.lx = S.CLexer(self._err, lambda: self.braces.append("{"), lambda: self.braces.append("}"), self._lookup)

    def _err(self, msg, line, col):
        self.errors.append((msg, line, col))

    def _lookup(self, name):
        self.lookups.append(name)
        return name in TYPE_NAMES

    def run(self, text, filename, limit, steps=None):
        del self.errors[:], self.braces[:], self.lookups[:]
        self.lx.input(text, filename)
        out = []
        calls = 0
        if steps is not None:
            # bounded work for the whole string: a token() call that loops inside the lexer is stopped by the
            # step monitor (deterministic), not by a wall-clock timeout
            steps.begin(3000 + 300 * len(text))
        while True:
            calls += 1
            try:
                t = self.lx.token()
            except monitors.StepBudgetExceeded:
                return out, calls, False
            if t is None:
                break
            out.append((t.type, t.value, t.lineno, t.column, self.lx.filename))
            if calls > limit:
                return out, calls, False
        return out, calls, True


def expected_stream(toks, kinds, directive, L):
    exp = []
    for i, t in enumerate(toks):
        f, ln, col = L.pos[i]
        if i in directive:
            exp.append(("PPPRAGMA", "pragma", ln, col, f))
            body = t[len("#pragma"):].strip()
            if body:
                sf, sl, sc = L.strpos[i]
                exp.append(("PPPRAGMASTR", body, sl, sc, sf))
        else:
            exp.append((kinds[i], t, ln, col, f))
    return exp


def check_layout(tr, toks, kinds, directive, style, sd, counters, marker_p=0.12):
    L = lay.layout(toks, directive, style, random.Random(sd), marker_p=marker_p)
    obs, calls, finished = tr.run(L.text, "f.c", len(L.text) + 5)
    exp = expected_stream(toks, kinds, directive, L)
    counters["tokens_compared"] += len(exp)
    counters["by_style"][style] = counters["by_style"].get(style, 0) + 1
    case = {"tokens": toks, "kinds": kinds, "directive": sorted(directive), "style": style, "layout_seed": sd, "marker_p": marker_p}
    if not finished:
        return {"kind": "lexer-does-not-finish", "sig": "loop", "case": case, "detail": {"text": L.text[:400]}}
    if tr.errors:
        return {"kind": "error-reported-on-valid-tokens", "sig": tr.errors[0][0][:30], "case": case,
                "detail": {"errors": tr.errors[:3], "text": L.text[:400]}}
    if obs != exp:
        j = 0
        while j < min(len(obs), len(exp)) and obs[j] == exp[j]:
            j += 1
        e = exp[j] if j < len(exp) else None
        o = obs[j] if j < len(obs) else None
        field = "count"
        if e and o:
            field = ["type", "spelling", "line", "column", "filename"][[a == b for a, b in zip(e, o)].index(False)]
        return {"kind": "token-stream-differs", "sig": field + ":" + (str(e[0]) if e else "extra"), "case": case,
                "detail": {"first_difference_at": j, "expected": e, "observed": o, "text": L.text[:400]}}
    nb = sum(1 for t in toks if t in "{}")
    if len(tr.braces) != nb or [b for b in tr.braces] != [t for t in toks if t in ("{", "}")]:
        return {"kind": "brace-callbacks-differ", "sig": "brace", "case": case, "detail": {"callbacks": tr.braces[:10]}}
    return None


def conservation(text, obs, errors):
    """input = tokens + whitespace + directive lines + reported text.  Returns a problem string or None."""
    # offsets of line starts (physical lines); '#line' may re-base line numbers, in which case positions
    # cannot be mapped back: the caller only uses this on texts without digits after '#'
    starts = [0]
    for i, ch in enumerate(text):
        if ch == "\n":
            starts.append(i + 1)
    reported = set()
    for msg, ln, col in errors:
        if 1 <= ln <= len(starts):
            reported.add(starts[ln - 1] + col - 1)
    p = 0
    for typ, val, ln, col, _f in obs:
        if not (1 <= ln <= len(starts)):
            return f"token {val!r} reports line {ln} outside the input"
        off = starts[ln - 1] + col - 1
        if typ in ("PPPRAGMA", "PPPRAGMASTR"):
            if text[off:off + len(val)] != val:
                return f"pragma token {val!r} not at its reported position"
            p = max(p, off + len(val))
            continue
        if off < p:
            return f"token {val!r} at offset {off} overlaps consumed input (position went backwards)"
        if text[off:off + len(val)] != val:
            return f"token {val!r} is not the input text at its reported position {ln}:{col}"
        gap = text[p:off]
        prob = _gap_problem(gap, p, reported)
        if prob:
            return prob
        p = off + len(val)
    return _gap_problem(text[p:], p, reported)


def conservation_by_order(text, obs, nerrors):
    """Weaker rule used after an error swallowed a newline: tokens appear in input order and any
    skipped non-blank text is accompanied by at least one error report."""
    p = 0
    skipped = False
    for typ, val, ln, col, _f in obs:
        off = text.find(val, p)
        if off < 0:
            return f"token {val!r} does not occur in the remaining input"
        if text[p:off].strip(" \t\n\f\v"):
            skipped = True
        p = off + len(val)
    if text[p:].strip(" \t\n\f\v"):
        skipped = True
    if skipped and nerrors == 0:
        return "non-blank text was skipped without any error report"
    return None


def _gap_problem(gap, base, reported):
    i = 0
    n = len(gap)
    while i < n:
        ch = gap[i]
        if ch in " \t\n\f\v":
            i += 1
            continue
        if ch == "#":
            # a directive line is consumed as a unit (possibly with a report inside it)
            j = gap.find("\n", i)
            j = n if j < 0 else j
            body = gap[i + 1:j].lstrip(" \t")
            if body.startswith("line") or body[:1].isdigit() or body.startswith("pragma"):
                i = j
                continue
        # a run of non-token text: must have been reported at its first character
        if base + i not in reported:
            return f"characters {gap[i:i+8]!r} at offset {base + i} were skipped without a token or an error report"
        # the reported unit extends to the next whitespace-free boundary the lexer chose; accept up to the
        # next reported position or whitespace/newline after at least one character
        i += 1
        while i < n and (base + i) not in reported and gap[i] not in "\n":
            i += 1
    return None


def run_shard(spec):
    res = {"evaluations": 0, "nontrivial_distinct": 0, "hashes": [], "violations": [], "samples": [],
           "counters": {"tokens_compared": 0, "by_style": {}, "strings": 0, "token_calls": 0, "error_reports": 0,
                        "type_lookups": 0, "brace_callbacks": 0}}
    cnt = res["counters"]
    tr = Trace()
    hs = set()
    V = vocabulary()

    def add(v):
        if v is not None and len(res["violations"]) < 40:
            res["violations"].append(v)

    if spec["mode"] == "pairs":
        idx = 0
        for (k1, t1), (k2, t2) in itertools.product(V, repeat=2):
            idx += 1
            if idx % spec["nshards"] != spec["shard"]:
                continue
            for style in ("single", "minimal", "lines"):
                add(check_layout(tr, [t1, t2], [k1, k2], set(), style, idx, cnt))
                res["evaluations"] += 1
            res["nontrivial_distinct"] += 1
        cnt["type_lookups"] += len(tr.lookups)
        res["samples"].append({"pair": [V[3][1], V[60][1]], "vocabulary_size": len(V)})
    elif spec["mode"] == "literals":
        # every well-formed numeric literal of <= maxlen characters (by the reference classifier) inside a token stream:
        # between an operator and ';', next to itself, at the very start and at the very end of the input
        idx = 0
        nlit = 0
        for L in range(1, spec["maxlen"] + 1):
            for tup in itertools.product(LIT_ALPHA, repeat=L):
                idx += 1
                if idx % spec["nshards"] != spec["shard"]:
                    continue
                lit = "".join(tup)
                if lit[0] not in "0123456789.":
                    continue
                k = rlex.classify_literal(lit)
                if not k or k == "PREFIXED_MULTICHAR":
                    continue
                nlit += 1
                for toks, kinds in (([lit], [k]), (["x", "=", lit, ";"], ["ID", "EQUALS", k, "SEMI"]), ([lit, lit], [k, k]),
                                    (["(", lit, ")", "+", lit], ["LPAREN", k, "RPAREN", "PLUS", k])):
                    for style in ("single", "minimal"):
                        add(check_layout(tr, toks, kinds, set(), style, idx, cnt))
                        res["evaluations"] += 1
                res["nontrivial_distinct"] += 1
        cnt["numeric_literals"] = cnt.get("numeric_literals", 0) + nlit
        res["samples"].append({"literal_alphabet": LIT_ALPHA, "numeric_literals_in_streams": nlit})
    elif spec["mode"] == "seq":
        rnd = random.Random(spec["rseed"])
        for i in range(spec["n"]):
            n = rnd.randrange(1, 61)
            toks, kinds, directive = [], [], set()
            for _ in range(n):
                if rnd.random() < 0.05:
                    directive.add(len(toks))
                    toks.append(rnd.choice(PRAGMAS) if rnd.random() < 0.6 else random_pragma(rnd))
                    kinds.append("PRAGMA")
                else:
                    k, t = rnd.choice(V)
                    toks.append(t)
                    kinds.append(k)
            style = rnd.choice(lay.STYLES + ["marked", "minimal"])
            sd = rnd.randrange(1 << 30)
            add(check_layout(tr, toks, kinds, directive, style, sd, cnt, marker_p=rnd.choice([0.05, 0.2, 0.5])))
            res["evaluations"] += 1
            cnt["brace_callbacks"] += len(tr.braces)
            if n >= 2:
                hs.add(hash((tuple(toks), style, sd)) & ((1 << 56) - 1))
            if i == 0:
                res["samples"].append({"sequence": toks[:20], "style": style})
    else:
        A = ALPHA20
        idx = 0
        steps = monitors.StepMonitor()
        steps.start()
        for L in range(1, spec["maxlen"] + 1):
            for tup in itertools.product(A, repeat=L):
                idx += 1
                if idx % spec["nshards"] != spec["shard"]:
                    continue
                s = "".join(tup)
                obs, calls, finished = tr.run(s, "p.c", len(s) + 2, steps)
                steps.end()
                cnt["strings"] += 1
                cnt["token_calls"] += calls
                cnt["error_reports"] += len(tr.errors)
                res["evaluations"] += 1
                if L >= 2:
                    res["nontrivial_distinct"] += 1
                case = {"string": s}
                if not finished:
                    add({"kind": "lexer-makes-no-progress", "sig": "calls", "case": case,
                         "detail": {"calls": calls, "limit": len(s) + 2}})
                    continue
                if any(ch.isdigit() for ch in s) and "#" in s:
                    # a '#<digits>' directive may re-base line numbers: positions cannot be mapped back
                    continue
                if tr.errors and "\n" in s and any(q in s for q in "'\""):
                    # a malformed quoted literal may swallow a newline (unterminated quote, backslash-newline):
                    # line numbers after an already reported error are outside the property; fall back to
                    # order-only conservation
                    prob = conservation_by_order(s, obs, len(tr.errors))
                else:
                    prob = conservation(s, obs, tr.errors)
                if prob:
                    add({"kind": "input-not-conserved", "sig": prob.split(" ")[0] + prob.split(" ")[-1][:12], "case": case,
                         "detail": {"problem": prob, "tokens": obs[:6], "errors": tr.errors[:4]}})
        steps.stop()
        res["samples"].append({"progress_string": "a'\\\n#"})
    res["hashes"] = sorted(hs)
    return res


def summarize(results, tier, seed):
    tot = {}
    styles = {}
    for r in results:
        for k, v in r.get("counters", {}).items():
            if k == "by_style":
                for a, b in v.items():
                    styles[a] = styles.get(a, 0) + b
            else:
                tot[k] = tot.get(k, 0) + v
    return {"monitors": {"token_trace": tot, "layouts_by_style": styles},
            "exhaustive_parts": ["all ordered vocabulary pairs x {single, minimal, lines}",
                                 f"all strings of length <= {4 if tier == 'quick' else 5} over the 20-character alphabet"],
            "vocabulary_size": len(vocabulary())}


def replay(rec):
    c = rec["case"]
    tr = Trace()
    cnt = {"tokens_compared": 0, "by_style": {}}
    if "string" in c:
        s = c["string"]
        obs, calls, finished = tr.run(s, "p.c", len(s) + 2)
        if not finished:
            return [{"kind": "lexer-makes-no-progress"}]
        prob = conservation(s, obs, tr.errors)
        print(obs, tr.errors)
        return [{"kind": "input-not-conserved", "detail": prob}] if prob else []
    v = check_layout(tr, c["tokens"], c["kinds"], set(c["directive"]), c["style"], c["layout_seed"], cnt, c.get("marker_p", 0.12))
    return [v] if v else []
