"""C16 - parsing work grows linearly with input size - no backtracking blow-up.

Step-counter monitor: sys.monitoring PY_START events in every code object run on behalf
of parse() (pycparser itself, copy, re, ... - the harness excluded) plus backward JUMP
events (loop iterations) inside pycparser are counted per parse() call (deterministic:
thresholds are not timing sensitive).  Scalable input families f(k) are parsed at doubling k; the growth ratio of
the step count decides.  Regex backtracking is invisible to Python-level events, so
lexer families are judged by CPU time with two to three orders of magnitude of margin."""
import json
import math
import os
import resource
import subprocess
import sys
import time

from .. import monitors, sut
from ..gen import corpus

ID = "C16"
LEVEL = "exploration"
RULE = ("~75 scalable families f(k): k-fold repetition of each declaration/statement/expression kind, depth-k nesting of "
        "each recursive construct (parentheses, casts, sizeof, unary chains, compound literals, calls, subscripts, "
        "initializer braces, blocks, if/else, ?:, pointer/array/function/parenthesised declarators named and abstract, "
        "struct nesting, type names inside array bounds inside type names for cast/sizeof/compound literal/_Alignas/"
        "_Atomic), pairwise compositions of the recursive constructs, prefixes of the three benchmark files at doubling "
        "sizes; 30 adversarial literal families for the lexer's regular expressions. k = 8..512 (quick) / 8..1024 "
        "(thorough). Violation: two consecutive doublings with step ratio > 2.6 (sizes with >= 3000 steps), or three consecutive "
        "ratios strictly increasing, all > 2.05 and the last > 2.3 (a quadratic term with a small constant), a step "
        "budget of 400 steps per input character exceeded, or for lexer families an input of <= 8000 characters "
        "taking > 10 s user CPU when run alone (min of 3; today's worst: 0.18 s), 65536 characters taking > 40 s (today's worst: 1.5 s), or a "
        "lexer shard that hangs and whose marked case burns > 45 s CPU alone. Non-trivial: every (family, k) measurement; distinct by construction.")
ASSUMPTIONS = ["PY_START counts are deterministic for a given input", "RecursionError on deep nests is tolerated as the property says "
               "(workers run with recursion limit 20000 and a 512 MB stack)",
               "CPU-time thresholds for regex families have >= 25x margin over today's worst case and are confirmed alone in fresh interpreters "
               "(a loaded machine inflates measured CPU time by up to 25x in this sandbox)"]
SHARD_TIMEOUT = {"quick": 240, "thorough": 900}
RATIO = 2.6
# (known-finding attribution is by trigger + hottest-loop twin, see run_shard; no function names)


def rep(unit, pre="", suf=""):
    return lambda k: pre + unit * k + suf


def nest(open_, mid, close, pre="", suf=""):
    return lambda k: pre + open_ * k + mid + close * k + suf


def fdef(body):
    return "void f(int a, int *p) { " + body + " }"


FAMILIES = {
    # ---- repetition
    "rep-decl": rep("int x; "),
    "rep-typedef-use": rep("T v; ", pre="typedef int T; "),
    "rep-struct": rep("struct S { int a; char *b; } ; "),
    "rep-enum": rep("enum { A, B = 2 } ; "),
    "rep-funcdef": rep("void g(int a) { return; } "),
    "rep-stmt": lambda k: fdef("a = a + 1; " * k),
    "rep-if-else-chain": lambda k: fdef("if (a) a = 1; " + "else if (a) a = 2; " * k),
    "rep-switch-cases": lambda k: fdef("switch (a) { " + "case 1: a = 2; break; " * k + "}"),
    "rep-init-list": lambda k: "int x[] = { " + "1, " * k + "};",
    "rep-designated": lambda k: "int x[] = { " + "[1] = 2, " * k + "};",
    "rep-string-concat": lambda k: "char *s = " + '"ab" ' * k + ";",
    "rep-wstring-concat": lambda k: "void *s = " + 'L"ab" ' * k + ";",
    "rep-call-args": lambda k: fdef("g(" + "a, " * k + "a);"),
    "rep-params": lambda k: "void g(" + "int a, " * k + "int z);",
    "rep-declarators": lambda k: "int " + "a, " * k + "z;",
    "rep-binary-chain": lambda k: fdef("a = " + "a + " * k + "1;"),
    "rep-mixed-prec-chain": lambda k: fdef("a = " + "a * a + a << " * k + "1;"),
    "rep-assign-chain": lambda k: fdef("a = " * k + "1;"),
    "rep-comma-chain": lambda k: fdef("a, " * k + "a;"),
    "rep-postfix-chain": lambda k: fdef("p" + "[1]" * k + ";"),
    "rep-member-chain": lambda k: fdef("a" + ".m" * k + ";"),
    "rep-pragma": rep("#pragma omp x\n"),
    "rep-linemarker": rep("# 3 \"f.h\" 1\nint x;\n"),
    "rep-struct-members": lambda k: "struct S { " + "int m; " * k + "};",
    "rep-bitfields": lambda k: "struct S { " + "int m : 3, : 0; " * k + "};",
    "rep-labels": lambda k: fdef("L: " * 1 + "a = 1; " * k),
    "rep-static-assert": rep("_Static_assert(1, \"m\"); "),
    "rep-typedef-lookup": lambda k: "typedef int T; " + "T " + "a, " * k + "z;",
    # ---- nesting
    "nest-parens": lambda k: fdef("a = " + "(" * k + "a" + ")" * k + ";"),
    "nest-casts": lambda k: fdef("a = " + "(int)" * k + "a;"),
    "nest-sizeof": lambda k: fdef("a = " + "sizeof " * k + "a;"),
    "nest-unary": lambda k: fdef("a = " + "- ~ ! " * k + "a;"),
    "nest-deref": lambda k: fdef("a = " + "*&" * k + "a;"),
    "nest-compound-literal": lambda k: fdef("a = " + "(int){ " * k + "1" + " }" * k + ";"),
    "nest-calls": lambda k: fdef("g(" * k + "a" + ")" * k + ";"),
    "nest-subscripts": lambda k: fdef("p[" * k + "a" + "]" * k + ";"),
    "nest-init-braces": lambda k: "int x = " + "{" * k + "1" + "}" * k + ";",
    "nest-blocks": lambda k: fdef("{" * k + "a = 1;" + "}" * k),
    "nest-if": lambda k: fdef("if (a) " * k + "a = 1;"),
    "nest-if-else": lambda k: fdef("if (a) " * k + "a = 1;" + " else a = 2;" * k),
    "nest-while": lambda k: fdef("while (a) " * k + "a = 1;"),
    "nest-for": lambda k: fdef("for (;;) " * k + "a = 1;"),
    "nest-switch": lambda k: fdef("switch (a) " * k + "a = 1;"),
    "nest-ternary-right": lambda k: fdef("a = " + "a ? a : " * k + "a;"),
    "nest-ternary-mid": lambda k: fdef("a = " + "a ? " * k + "a" + " : a" * k + ";"),
    "nest-pointer-decl": lambda k: "int " + "*" * k + "p;",
    "nest-pointer-quals": lambda k: "int " + "* const " * k + "p;",
    "nest-array-decl": lambda k: "int a" + "[1]" * k + ";",
    "nest-paren-decl": lambda k: "int " + "(" * k + "a" + ")" * k + ";",
    "nest-funcptr-decl": lambda k: "int " + "(*" * k + "f" + ")(void)" * k + ";",
    "nest-abstract-funcptr": lambda k: "void g(int " + "(*" * k + ")(void)" * k + ");",
    "nest-abstract-ptr-array": lambda k: fdef("a = sizeof(int " + "(*" * k + ")[2]" * k + ");"),
    "nest-struct": lambda k: "struct S { " * k + "int a;" + " } m;" * k,
    "nest-param-funcs": lambda k: "void g(" + "void (*f)(" * k + "int" + ")" * k + ");",
    "nest-typename-sizeof": lambda k: fdef("a = " + "sizeof(int[" * k + "1" + "])" * k + ";"),
    "nest-typename-cast": lambda k: fdef("a = " + "(int(*)[" * k + "1" + "])0" * 1 + "])0" * (k - 1) + ";" if k > 0 else ""),
    "nest-typename-clit": lambda k: fdef("a = sizeof " + "(int[" * k + "1" + "]){0}" * k + ";"),
    "nest-typename-alignas": lambda k: "_Alignas(int[" * 1 + "sizeof(int[" * k + "1" + "])" * k + "]) int x;",
    "nest-typename-atomic": lambda k: "_Atomic(int(*)[" * 1 + "sizeof(_Atomic(int)(*)[" * k + "1" + "])" * k + "]) x;",
    "nest-enum-in-sizeof": lambda k: fdef("a = " + "sizeof(enum { A = " * k + "1" + " })" * k + ";"),
    "nest-struct-in-sizeof": lambda k: fdef("a = " + "sizeof(struct { int m[" * k + "1" + "]; })" * k + ";"),
    "nest-stmt-expr": lambda k: fdef("a = " + "({ " * k + "a;" + " })" * k + ";"),
    "nest-label": lambda k: fdef("".join(f"L{i}: " for i in range(k)) + "a = 1;"),
    "nest-case": lambda k: fdef("switch (a) { " + "case 1: " * k + "a = 1; }"),
    # ---- compositions
    "mix-paren-cast": lambda k: fdef("a = " + "((int)" * k + "a" + ")" * k + ";"),
    "mix-call-subscript": lambda k: fdef("g(p[" * k + "a" + "])" * k + ";"),
    "mix-ternary-paren": lambda k: fdef("a = " + "(a ? " * k + "a" + " : a)" * k + ";"),
    "mix-clit-subscript": lambda k: fdef("a = " + "(int[]){ " * k + "1" + " }[0]" * k + ";"),
    "mix-block-if": lambda k: fdef("if (a) { " * k + "a = 1;" + " }" * k),
    "mix-sizeof-paren": lambda k: fdef("a = " + "sizeof (" * k + "a" + ")" * k + ";"),
    "mix-cast-unary": lambda k: fdef("a = " + "(int) - " * k + "a;"),
    "mix-decl-ptr-array": lambda k: "int " + "(*" * k + "a" + ")[2]" * k + ";",
    "mix-init-designated": lambda k: "int x = " + "{ [0] = " * k + "1" + " }" * k + ";",
    "mix-func-returning-funcptr": lambda k: "int " + "(*" * k + "f(void)" + ")(int)" * k + ";",
}

def _through_params(k):
    d = "int (*f0(void))(void)"
    for i in range(1, k):
        d = f"int (*f{i}({d}))(void)"
    return d + ";"


def _param_chain(k):
    d = "int x"
    for i in range(k):
        d = f"int (*g{i}({d}))"
    return d + ";"


def _abstract_param_chain(k):
    d = "int"
    for i in range(k):
        d = f"int (*)({d})"
    return "void h(" + d + ");"


FAMILIES.update({
    # ---- repetition in the less usual positions
    "rep-switch-prelude": lambda k: fdef("switch (a) { int t; " + "t = a; " * k + "case 0: break; }"),
    "rep-switch-no-label": lambda k: fdef("switch (a) { " + "a = 1; " * k + "}"),
    "rep-switch-prelude-decls": lambda k: fdef("switch (a) { " + "int t; " * k + "default: break; }"),
    "rep-stmts-after-default": lambda k: fdef("switch (a) { case 1: break; default: " + "a = 1; " * k + "}"),
    "rep-case-stmts": lambda k: fdef("switch (a) { case 1: " + "a = 1; " * k + "break; case 2: " + "a = 2; " * k + "}"),
    "rep-kr-decls": lambda k: "int g(" + ", ".join(f"a{i}" for i in range(k + 1)) + ") " + "".join(f"int a{i}; " for i in range(k + 1)) + "{ return a0; }",
    "rep-enum-list": lambda k: "enum E { " + ", ".join(f"E{i} = {i}" for i in range(k + 1)) + " };",
    "rep-member-declarators": lambda k: "struct S { int " + "m, *n[2], " * k + "z; };",
    "rep-designator-chain": lambda k: "int x = { " + ".a[1]" * k + " = 1 };",
    "rep-for-init-declarators": lambda k: fdef("for (int i = 0, " + "j = 1, " * k + "z = 2; ; ) a = 1;"),
    "rep-block-func-decls": lambda k: fdef("int g(int); " * k),
    "rep-block-typedefs": lambda k: fdef("".join(f"typedef int T{i}; T{i} v{i}; " for i in range(k))),
    "rep-inner-scopes": lambda k: "typedef int T; " + fdef("{ T v; T T; T = 1; } " * k),
    "rep-pragma-in-struct": lambda k: "struct S { int a;\n" + "#pragma pack(1)\nint b;\n" * k + "};",
    "rep-static-assert-in-struct": lambda k: "struct S { int a; " + "_Static_assert(1, \"m\"); " * k + "};",
    "rep-compound-literals": lambda k: fdef("a = " + "(int){1} + " * k + "1;"),
    "rep-anon-members": lambda k: "struct S { " + "struct { int a; }; union { int b; }; " * k + "};",
    "rep-goto-labels": lambda k: fdef("".join(f"L{i}: goto L{i}; " for i in range(k))),
    "rep-empty-stmts": lambda k: fdef(";" * k),
    "rep-string-init-list": lambda k: "char *x[] = { " + "\"s\", " * k + "};",
    "rep-file-scope-semis-pragmas": lambda k: "int a;\n" + "#pragma x\n;\n" * k,
    "rep-alignas-atomic": rep("_Alignas(8) _Atomic(int) v; "),
    "rep-funcdef-params-used": lambda k: "".join(f"int g{i}(int a, int b) {{ return a + b; }} " for i in range(k)),
    # ---- nests with two names / items per level
    "nest-struct-2decl": lambda k: "struct s { " * k + "int x;" + " } a, b;" * k,
    "nest-union-2decl": lambda k: "union u { " * k + "int x;" + " } a, *b;" * k,
    "nest-struct-typedef-2decl": lambda k: "typedef " + "struct { " * k + "int x;" + " } a, b;" * (k - 1) + " } TA, TB;" if k else "int x;",
    "nest-enum-in-struct-2decl": lambda k: "struct s { enum { " * 1 + "A } e, f; " + "struct { int y; " * k + " } p, q;" * k + " } r, t;",
    "nest-struct-2members": lambda k: "struct s { int h; " * k + "int x;" + " } a; int t;" * (k - 1) + " } a;" if k else "int x;",
    "nest-block-2stmts": lambda k: fdef("{ a = 1; " * k + "a = 2;" + " a = 3; }" * k),
    "nest-if-block-else-block": lambda k: fdef("if (a) { a = 1; " * k + "a = 2;" + " } else { a = 3; }" * k),
    "nest-switch-in-case": lambda k: fdef("switch (a) { case 1: a = 1; " * k + "a = 2;" + " break; default: ; }" * k),
    "nest-for-decl": lambda k: fdef("for (int i = 0; i < a; i++) { int q = i; " * k + "a = 2;" + " }" * k),
    "nest-atomic-2decl": lambda k: "_Atomic(" * k + "int" + ")" * k + " a, b;",
    "nest-init-2items": lambda k: "int x = " + "{ 1, " * k + "2" + " }" * k + ";",
    "nest-call-2args": lambda k: fdef("g(a, " * k + "a" + ")" * k + ";"),
    "nest-ternary-both": lambda k: fdef("a = " + "(a ? a : " * k + "a" + ")" * k + ";"),
    "nest-param-2funcs": lambda k: "void g(int z, " + "void (*f)(int y, " * k + "int" + ")" * k + ");",
})
FAMILIES.update({
    # ---- recursion through the LEFT operand / the base of a postfix expression (via parentheses)
    "nest-assign-lhs-paren": lambda k: fdef("(" * k + "a" + " = 1)" * k + ";"),
    "nest-assign-to-conditional": lambda k: fdef("((" * k + "a" + ") ? a : a) = 1" * k + ";"),
    "nest-assign-to-binary": lambda k: fdef("((" * k + "a" + ") + a) = 1" * k + ";"),
    "nest-compound-assign-lhs": lambda k: fdef("(" * k + "a" + " += 1)" * k + ";"),
    "nest-call-callee": lambda k: fdef("(" * k + "g" + ")(a)" * k + ";"),
    "nest-subscript-base": lambda k: fdef("(" * k + "p" + ")[1]" * k + ";"),
    "nest-member-base": lambda k: fdef("(" * k + "a" + ").m" * k + ";"),
    "nest-arrow-base": lambda k: fdef("(" * k + "p" + ")->m" * k + ";"),
    "nest-postinc-base": lambda k: fdef("(" * k + "a" + ")++" * k + ";"),
    "nest-ternary-cond": lambda k: fdef("a = " + "(" * k + "a" + " ? a : a)" * k + ";"),
    "nest-comma-left": lambda k: fdef("(" * k + "a" + ", a)" * k + ";"),
    "nest-binary-left": lambda k: fdef("a = " + "(" * k + "a" + " + a)" * k + ";"),
    "nest-unary-of-assign": lambda k: fdef("a = " + "-(a = " * k + "a" + ")" * k + ";"),
    "nest-cast-of-assign": lambda k: fdef("a = " + "(int)(a = " * k + "a" + ")" * k + ";"),
    "nest-sizeof-of-assign": lambda k: fdef("a = " + "sizeof(a = " * k + "a" + ")" * k + ";"),
    # ---- repetition of constructs after which the parser has to look one token ahead (else-less if before '}' ...)
    "rep-block-for-if": lambda k: fdef("{ for (int i = 0; i < 4; i++) if (a) a = i; } " * k),
    "rep-block-if": lambda k: fdef("{ if (a) a = 1; } " * k),
    "rep-block-while-if": lambda k: fdef("{ while (a) if (a) a = 1; } " * k),
    "rep-func-for-if": lambda k: "".join(f"void g{i}(int a) {{ for (int i = 0; i < 4; i++) if (a) a = i; }} " for i in range(k)),
    "rep-func-if": lambda k: "".join(f"void g{i}(int a) {{ if (a) a = 1; }} " for i in range(k)),
    "rep-for-decl-flat": lambda k: fdef("for (int i = 0; i < 4; i++) if (a) a = i; " * k),
    "rep-struct-then-ident": lambda k: "struct S { int a; }; " * 1 + "".join(f"struct S{i} {{ int m; }} v{i}; " for i in range(k)),
    "rep-switch-blocks": lambda k: fdef("switch (a) { case 1: if (a) a = 1; } " * k),
    "rep-do-while": lambda k: fdef("do if (a) a = 1; while (a); " * k),
    "rep-label-if": lambda k: fdef("".join(f"L{i}: if (a) a = 1; " for i in range(k))),
})
FAMILIES["nest-funcptr-through-params"] = _through_params
FAMILIES["nest-func-param-chain"] = _param_chain
FAMILIES["nest-abstract-param-chain"] = _abstract_param_chain
FAMILIES["nest-typedef-paren-params"] = lambda k: "typedef int T; void h(" + "int (" * k + "T" + ")" * k + ");"

LEX_FAMILIES = {
    "char-esc-noclose": lambda n: "'" + "\\123" * (n // 4),
    "char-esc-bad-tail": lambda n: "'" + "\\123" * (n // 4) + "\\`'",
    "char-hex-noclose": lambda n: "'" + "\\x1f" * (n // 4),
    "char-u-escape-run": lambda n: "'" + "\\u0041" * (n // 6) + "'",
    "char-U-escape-run": lambda n: "L'" + "\\U00000041" * (n // 10) + "'",
    "char-plain-noclose": lambda n: "'" + "a" * n,
    "char-plain-long-closed": lambda n: "'" + "a" * n + "'",
    "char-esc-long-closed": lambda n: "'" + "\\12" * (n // 3) + "'",
    "str-esc-noclose": lambda n: '"' + "\\123" * (n // 4),
    "str-esc-bad-mid": lambda n: '"' + "\\123" * (n // 8) + "\\`" + "\\123" * (n // 8) + '"',
    "str-bad-many": lambda n: '"' + "\\`" * (n // 2) + '"',
    "str-backslashes": lambda n: '"' + "\\\\" * (n // 2),
    "str-x-noclose": lambda n: '"' + "\\x" * (n // 2),
    "str-u-escape-run": lambda n: '"' + "\\u0041" * (n // 6) + "`",
    "digits-bad-tail": lambda n: "1" * n + "z",
    "oct-bad": lambda n: "0" + "7" * n + "9",
    "hexfloat-nop": lambda n: "0x" + "1" * (n // 2) + "." + "1" * (n // 2),
    "float-e-noexp": lambda n: "1" * n + "e",
    "float-frac-run": lambda n: "1." * (n // 2),
    "dots": lambda n: "." * n,
    "ident-long": lambda n: "a" * n,
    "pluses": lambda n: "+" * n,
    "quote-run": lambda n: "'" * n,
    "dquote-run": lambda n: '"' * n,
    "wprefix-run": lambda n: "L" * n + "'",
    "u8-run": lambda n: "u8" * (n // 2) + '"',
    "line-directive-long": lambda n: "# " + "1" * (n // 2) + ' "' + "a" * (n // 2),
    "line-flags-long": lambda n: '# 1 "f.c"' + " 1" * (n // 2),
    "pragma-long": lambda n: "#pragma " + "x" * n,
    "line-fname-backslashes-open": lambda n: '# 1 "' + "\\" * n + "\nint x;\n",
    "line-fname-backslashes-closed": lambda n: '# 1 "' + "\\" * (2 * (n // 2)) + '"\nint x;\n',
    "line-fname-escapes-open": lambda n: '# 1 "' + "\\a" * (n // 2) + "\nint x;\n",
    "line-fname-quotes": lambda n: '# 1 "' + '\\"' * (n // 2) + "\nint x;\n",
    "line-number-long-bad": lambda n: "#line " + "9" * n + "x\n",
    "line-blanks": lambda n: "#" + " \t" * (n // 2) + "1" + " " * n + '"f"' + " " * n + "\n",
    "line-many-flags-bad-tail": lambda n: '# 1 "f.c"' + " 1" * (n // 2) + " x\n",
    "pragma-blanks": lambda n: "#" + " " * n + "pragma" + "\t " * (n // 2) + "x\n",
    "hash-run": lambda n: "#" * n,
    "string-then-bad-escape-runs": lambda n: '"' + "a" * (n // 2) + "\\" + "q" * (n // 2),
    "wide-prefix-escapes": lambda n: 'L"' + "\\x" * (n // 3) + '"',
    "nested-quote-mix": lambda n: ("'\"" * (n // 2)),
    "slashes": lambda n: "/" * n,
    "suffix-run": lambda n: "1" + "uUlL" * (n // 4),
    "int-suffix-alt": lambda n: "0x" + "f" * n + "ULLL",
}

# product families (round-6 seed R6_C16_A: a nested quantifier in the bad-character-constant rule is only reached by a quote,
# a run of plain characters and then an invalid escape with no closing quote on the line): opener x repeated unit x tail
_LEX_OPEN = {"sq": "'", "wsq": "L'", "dq": '"', "wdq": 'L"'}
_LEX_UNIT = {"plain": "a", "plain-esc": "ab\\n", "oct": "\\123", "blank": "a "}
_LEX_TAIL = {"badesc": "\\(", "badesc-close": "\\(%s", "badesc-plain": "\\(bbbbbbbb", "bs-newline": "\\\n", "two-badesc": "\\(a\\`"}
for _o, _ot in _LEX_OPEN.items():
    for _u, _ut in _LEX_UNIT.items():
        for _t, _tt in _LEX_TAIL.items():
            LEX_FAMILIES[f"prod-{_o}-{_u}-{_t}"] = (lambda n, _ot=_ot, _ut=_ut, _tt=_tt:
                                                     _ot + _ut * max(1, n // len(_ut)) + _tt.replace("%s", _ot[-1]))


def plan(tier, seed):
    names = sorted(FAMILIES)
    n = 14
    kmax = 512 if tier == "quick" else 1024
    specs = [{"name": f"fam-{i}", "mode": "families", "families": names[i::n], "kmax": kmax} for i in range(n)]
    specs.append({"name": "files", "mode": "files", "maxchars": 60000 if tier == "quick" else 300000})
    lex = sorted(LEX_FAMILIES)
    for i in range(8):
        specs.append({"name": f"lex-{i}", "mode": "lex", "families": lex[i::8], "timeout_s": 900})
    return specs


def measure(steps, text, budget_per_char=400):
    S = sut.load()
    o = monitors.outcome(S.CParser().parse, text, "w.c", steps, 20000 + budget_per_char * len(text))
    return steps.n, o


def _nest_depth(text, op, cl):
    d = best = 0
    for ch in text:
        if ch == op:
            d += 1
            best = max(best, d)
        elif ch == cl:
            d -= 1
    return best


def _kf_trigger(fam, k):
    """The open findings K46 / K47 are about ONE declarator with many derivations and about brace NESTING: the input itself
    must have a declarator with >= k/2 derivations (K46), resp. a brace depth >= k/2 (K47).  Families that repeat a bounded
    unit k times never qualify."""
    import re
    text = fam(k)
    if _nest_depth(text, "{", "}") >= k // 2:
        return "K47"
    if max(sum(seg.count(c) for c in "*[(") for seg in re.split(r"[;{}]", text)) >= k // 2:
        return "K46"
    return None


def judge_series(name, series, case_extra=None):
    """series: list of (k, length, steps, outcome_tag).  Returns violations."""
    vs = []
    ok = [(k, ln, st) for k, ln, st, tag in series if tag in ("ok", "perr")]
    bad = 0
    worst = None
    for (k1, l1, s1), (k2, l2, s2) in zip(ok, ok[1:]):
        if s1 < 3000 or l1 == 0:
            bad = 0
            continue
        growth_in = l2 / l1
        ratio = s2 / s1
        # normalise by the actual input growth (families do not always double exactly)
        norm = ratio / growth_in * 2.0
        if norm > RATIO:
            bad += 1
            worst = (k1, k2, round(norm, 2))
            if bad >= 2:
                vs.append({"kind": "super-linear-growth", "sig": name, "case": dict({"family": name}, **(case_extra or {})),
                           "detail": {"doubling_ratios_exceeded_at": worst, "threshold": RATIO,
                                      "series_k_len_steps": [(a, b, c) for a, b, c in ok]}})
                break
        else:
            bad = 0
    if not vs:
        # a quadratic term with a small constant: the normalised doubling ratio keeps climbing (for c1*k + c2*k*log k it
        # falls towards 2): three consecutive ratios strictly increasing, all > 2.05, the last > 2.3
        rs = []
        for (k1, l1, s1), (k2, l2, s2) in zip(ok, ok[1:]):
            if s1 >= 3000 and l1:
                rs.append((k2, (s2 / s1) / (l2 / l1) * 2.0))
        if len(rs) >= 3:
            a, b, c = (x[1] for x in rs[-3:])
            if a < b < c and a > 2.05 and c > 2.3:
                vs.append({"kind": "super-linear-growth", "sig": name, "case": dict({"family": name}, **(case_extra or {})),
                           "detail": {"rule": "three consecutive doubling ratios strictly increasing, all > 2.05, last > 2.3",
                                      "last_ratios": [round(x, 3) for x in (a, b, c)], "at_k": rs[-1][0],
                                      "series_k_len_steps": [(x, y, z) for x, y, z in ok]}})
    for k, ln, st, tag in series:
        if tag == "budget":
            vs.append({"kind": "step-budget-exceeded", "sig": name, "case": dict({"family": name, "k": k}, **(case_extra or {})),
                       "detail": {"k": k, "chars": ln, "budget_steps_per_char": 400,
                                  "series_k_len_steps": [(a, b, c) for a, b, c, _ in series]}})
            break
        if tag == "exc":
            vs.append({"kind": "family-raises-non-ParseError", "sig": name, "case": {"family": name, "k": k}, "detail": {}})
            break
    return vs


def _arm_cpu_limit(seconds):
    """Kernel-enforced CPU-time budget for the next measurement: the process is killed by SIGXCPU when it has used
    `seconds` more CPU seconds than now.  CPU time, not wall time, so a loaded machine cannot trigger it; a regex
    that hangs is stopped after a bounded amount of work and the parent confirms the marked case alone."""
    ru = resource.getrusage(resource.RUSAGE_SELF)
    used = ru.ru_utime + ru.ru_stime
    soft, hard = resource.getrlimit(resource.RLIMIT_CPU)
    new = int(used) + seconds + 1
    if hard != resource.RLIM_INFINITY:
        new = min(new, hard)
    resource.setrlimit(resource.RLIMIT_CPU, (new, hard))


def lex_time(text):
    S = sut.load()
    errs = []
    lx = S.CLexer(lambda m, l, c: errs.append(1), lambda: None, lambda: None, lambda n: False)
    lx.input(text, "")
    # user-mode CPU time of this thread only: system time (page faults under memory pressure) and other
    # threads must not count
    t0 = resource.getrusage(resource.RUSAGE_THREAD).ru_utime
    n = 0
    while lx.token() is not None:
        n += 1
        if n > len(text) + 5:
            break
    return resource.getrusage(resource.RUSAGE_THREAD).ru_utime - t0


def run_shard(spec):
    res = {"evaluations": 0, "nontrivial_distinct": 0, "hashes": [], "violations": [], "samples": [],
           "counters": {"measurements": 0, "families": 0, "recursion_tolerated": 0, "max_norm_ratio": 0.0, "table": {}}}
    cnt = res["counters"]
    marker = spec.get("_marker_path")

    def mark(obj):
        if marker:
            with open(marker, "w") as f:
                json.dump(obj, f)

    if spec["mode"] in ("families", "files"):
        steps = monitors.StepMonitor(work=True)
        steps.attrib = True
        steps.start()
        try:
            if spec["mode"] == "families":
                for name in spec["families"]:
                    fam = FAMILIES[name]
                    series = []
                    loops = []      # per measurement: {code object: loop iterations}
                    k = 8
                    while k <= spec["kmax"]:
                        text = fam(k)
                        mark({"family": name, "k": k})
                        n, o = measure(steps, text)
                        tag = o[0]
                        series.append((k, len(text), n, tag))
                        loops.append(dict(steps.attributed_by))
                        cnt["measurements"] += 1
                        res["evaluations"] += 1
                        res["nontrivial_distinct"] += 1
                        if tag == "rec":
                            cnt["recursion_tolerated"] += 1
                            break
                        if tag in ("budget", "exc"):
                            break
                        k *= 2
                    cnt["families"] += 1
                    cnt["table"][name] = [(a, c) for a, b, c, d in series]
                    vs = judge_series(name, series)
                    kf = _kf_trigger(fam, series[-1][0]) if vs else None
                    if vs and kf and loops and loops[-1]:
                        # K46 / K47 (quadratic walk per declarator derivation / per identifier in nested scopes): the input
                        # really nests (trigger), and with the iterations of the SINGLE hottest loop of the parse removed
                        # the series is within the linear rules (neutralised twin).  Nothing is keyed to a function name,
                        # so a refactoring that moves the loop keeps the attribution, while any additional super-linear
                        # term - in another loop, or in function calls - stays in the twin and is reported.
                        hot = max(loops[-1], key=loops[-1].get)
                        twin = []
                        for (k_, ln, n, tag), lp in zip(series, loops):
                            m = n - lp.get(hot, 0)
                            twin.append((k_, ln, m, "ok" if tag == "budget" and m <= (20000 + 400 * ln) // 2 else tag))
                        kmax_ = series[-1][0]
                        # ... and that loop is at most quadratic with the constant seen today (<= 2.0 k^2; bound 6 k^2)
                        if not judge_series(name, twin) and loops[-1][hot] <= 6 * kmax_ * kmax_:
                            for v in vs:
                                v["kf"] = kf
                                v["detail"]["hottest_loop"] = f"{hot.co_qualname} ({os.path.basename(hot.co_filename)}:{hot.co_firstlineno})"
                                v["detail"]["steps_without_hottest_loop"] = [(a, b, c) for a, b, c, _ in twin]
                    if vs:
                        res["violations"] += vs
                res["samples"].append({"family": spec["families"][0], "text_at_k8": FAMILIES[spec["families"][0]](8)[:200]})
            else:
                for fname, text in corpus.big_files() + corpus.repo_files()[:6]:
                    cuts = corpus.split_top_level(text)
                    series = []
                    size = 2000
                    while size <= min(len(text), spec["maxchars"]):
                        cut = max([c for c in cuts if c <= size] or [0])
                        if cut == 0:
                            size *= 2
                            continue
                        pre = text[:cut]
                        mark({"file": fname, "chars": cut})
                        n, o = measure(steps, pre)
                        series.append((cut, len(pre), n, o[0]))
                        cnt["measurements"] += 1
                        res["evaluations"] += 1
                        res["nontrivial_distinct"] += 1
                        size *= 2
                    cnt["families"] += 1
                    cnt["table"][fname] = [(a, c) for a, b, c, d in series]
                    # prefixes of real files are not uniform: judge only the per-character budget and a loose slope
                    ok = [(l, s) for _, l, s, t in series if t in ("ok", "perr")]
                    if len(ok) >= 3 and ok[0][1] > 0:
                        slope = math.log(ok[-1][1] / ok[0][1]) / math.log(ok[-1][0] / ok[0][0])
                        if slope > 1.3:
                            res["violations"].append({"kind": "super-linear-growth", "sig": fname, "case": {"file": fname},
                                                      "detail": {"loglog_slope": round(slope, 3), "series_len_steps": ok}})
                    for _, l, s, t in series:
                        if t == "budget":
                            res["violations"].append({"kind": "step-budget-exceeded", "sig": fname, "case": {"file": fname, "chars": l}, "detail": {}})
                res["samples"].append({"file_prefix_series": cnt["table"].get("utils/benchmark/inputs/redis.c.ppout")})
        finally:
            steps.stop()
    else:
        for name in spec["families"]:
            fam = LEX_FAMILIES[name]
            row = []
            # sizes 16..8192 (no short input may take seconds) and one large size (a quadratic regex shows there)
            for n in [16, 32, 64, 128, 256, 512, 1024, 2048, 4096, 8192, 65536]:
                text = fam(n)
                mark({"lex_family": name, "n": n})
                _arm_cpu_limit(60)
                t = lex_time(text)
                row.append((n, len(text), round(t * 1000, 2)))
                cnt["measurements"] += 1
                res["evaluations"] += 1
                res["nontrivial_distinct"] += 1
                trigger, limit = (5.0, 10.0) if n <= 8192 else (15.0, 40.0)
                if t > trigger:
                    # never a verdict from one measurement on a possibly loaded machine: the minimum user-CPU time of
                    # three runs alone, each in a fresh interpreter, must exceed the (much larger) limit
                    confirm = min(_alone_user_cpu({"lex_family": name, "n": n}) for _ in range(3))
                    cnt["confirmations"] = cnt.get("confirmations", 0) + 1
                    if confirm > limit:
                        res["violations"].append({"kind": "short-input-takes-seconds-in-the-lexer" if n <= 8192 else "lexer-time-grows-super-linearly",
                                                  "sig": name, "case": {"lex_family": name, "n": n},
                                                  "detail": {"chars": len(text), "user_cpu_seconds_alone_min_of_3": round(confirm, 2),
                                                             "limit_seconds": limit, "series_n_chars_ms": row}})
                        break
            cnt["families"] += 1
            cnt["table"][name] = row[-3:]
        res["samples"].append({"lex_family": spec["families"][0], "text_at_n32": LEX_FAMILIES[spec["families"][0]](32)})
    return res


_ALONE_CODE = ("import sys, json, time, resource; sys.setrecursionlimit(20000)\n"
               "resource.setrlimit(resource.RLIMIT_CPU, (50, resource.getrlimit(resource.RLIMIT_CPU)[1]))\n"
               "from vf.checks import c16\n"
               "m = json.loads(sys.argv[1])\n"
               "if 'lex_family' in m:\n"
               "    c16.lex_time(c16.LEX_FAMILIES[m['lex_family']](m['n']))\n"
               "elif 'family' in m:\n"
               "    from vf import sut; sut.load().CParser().parse(c16.FAMILIES[m['family']](m['k']), 'w.c')\n")


def _alone_user_cpu(m, wall_timeout=120):
    """User CPU seconds the marked case needs when run alone in a fresh interpreter, minus the cost of an
    interpreter that does nothing (so start-up is not counted)."""
    root = os.path.dirname(os.path.dirname(os.path.dirname(os.path.abspath(__file__))))
    env = dict(os.environ, PYTHONHASHSEED="0")

    def run(arg):
        before = resource.getrusage(resource.RUSAGE_CHILDREN).ru_utime
        try:
            subprocess.run([sys.executable, "-c", _ALONE_CODE, arg], cwd=root, capture_output=True, timeout=wall_timeout, env=env)
        except subprocess.TimeoutExpired:
            pass
        return resource.getrusage(resource.RUSAGE_CHILDREN).ru_utime - before
    base = run(json.dumps({}))
    return max(0.0, run(json.dumps(m)) - base)


def on_shard_failure(spec, note):
    """A shard that timed out: re-run the marked case alone and decide on CPU time (never on wall time)."""
    if not note or not note.get("marker"):
        return None
    if not (note.get("why") == "timeout" or "exit -24" in str(note.get("why")) or "exit -9" in str(note.get("why"))):
        return None   # only hangs / CPU-budget kills are re-examined here
    try:
        m = json.loads(note["marker"])
    except Exception:  # noqa: BLE001
        return None
    cpu = _alone_user_cpu(m, wall_timeout=240)
    timed_out = False
    res = {"evaluations": 1, "nontrivial_distinct": 1, "violations": [], "samples": [], "counters": {"measurements": 1}, "inconclusive": []}
    if cpu > 40.0:  # the marked case alone used > 40 s of user CPU (quiet worst case: 1.5 s); wall-clock time never decides
        size = m.get("n") or m.get("k")
        res["violations"].append({"kind": "short-input-takes-seconds" + ("-in-the-lexer" if "lex_family" in m else ""),
                                  "sig": str(m.get("lex_family") or m.get("family")), "case": m,
                                  "detail": {"confirmed_alone": True, "child_cpu_seconds": round(cpu, 1), "wall_timeout_40s": timed_out, "size": size}})
    else:
        res["inconclusive"].append({"why": "shard timed out but the marked case finished quickly when run alone", "marker": m, "cpu": cpu})
    return res


def summarize(results, tier, seed):
    tot = {"measurements": 0, "families": 0, "recursion_tolerated": 0}
    table = {}
    for r in results:
        c = r.get("counters", {})
        for k in tot:
            tot[k] += c.get(k, 0)
        table.update(c.get("table", {}))
    return {"monitors": {"step_counter": tot}, "steps_by_family_k": table}


def replay(rec):
    c = rec["case"]
    if "lex_family" in c:
        t = lex_time(LEX_FAMILIES[c["lex_family"]](c["n"]))
        print("cpu seconds:", t)
        return [{"kind": rec["kind"], "detail": {"cpu_seconds": t}}] if t > 2.0 else []
    if "family" in c:
        steps = monitors.StepMonitor(work=True)
        steps.start()
        try:
            series = []
            k = 8
            while k <= 512:
                text = FAMILIES[c["family"]](k)
                n, o = measure(steps, text)
                series.append((k, len(text), n, o[0]))
                if o[0] in ("rec", "budget", "exc"):
                    break
                k *= 2
        finally:
            steps.stop()
        print(series)
        return judge_series(c["family"], series)
    return []
