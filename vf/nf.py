"""Neutral form of pycparser ASTs: nested tuples over __slots__ (not children()),
so a broken children()/__iter__ cannot hide a difference."""
from . import sut

_SKIP = ("coord", "__weakref__")


def nf(n, coords=False):
    """Recursive tuple (class, [coord,] ((slot, value)...)).  Iterative-safe for
    the depths the checks use (workers raise the recursion limit)."""
    Node = sut.load().Node
    if isinstance(n, Node):
        items = []
        for s in type(n).__slots__:
            if s in _SKIP:
                continue
            items.append((s, nf(getattr(n, s, "<unset>"), coords)))
        if coords:
            c = getattr(n, "coord", None)
            cc = None if c is None else (getattr(c, "file", None), getattr(c, "line", None),
                                         getattr(c, "column", None))
            return (type(n).__name__, cc, tuple(items))
        return (type(n).__name__, tuple(items))
    if isinstance(n, (list, tuple)):
        return ("[]",) + tuple(nf(x, coords) for x in n)
    if n is None or isinstance(n, (str, int, float, bool)):
        return n
    # Coord or foreign object inside an attribute
    return ("<obj>", type(n).__name__, str(n))


def _is_node(x):
    return (isinstance(x, tuple) and len(x) in (2, 3) and isinstance(x[0], str)
            and x[0] not in ("[]", "<obj>") and isinstance(x[-1], tuple))


def _is_list(x):
    return isinstance(x, tuple) and len(x) >= 1 and x[0] == "[]"


def first_diff(a, b, path="root"):
    """Path and values of the first difference between two neutral forms."""
    if a == b:
        return None
    if _is_node(a) and _is_node(b) and a[0] == b[0] and len(a) == len(b):
        if len(a) == 3 and a[1] != b[1]:
            return {"path": f"{path}<{a[0]}>.coord", "a": _short(a[1]), "b": _short(b[1])}
        for (sa, va), (sb, vb) in zip(a[-1], b[-1]):
            d = first_diff(va, vb, f"{path}<{a[0]}>.{sa}")
            if d:
                return d
    elif _is_list(a) and _is_list(b):
        if len(a) != len(b):
            return {"path": path, "a": f"list of {len(a)-1}: " + _short(a), "b": f"list of {len(b)-1}: " + _short(b)}
        for i in range(1, len(a)):
            d = first_diff(a[i], b[i], f"{path}[{i-1}]")
            if d:
                return d
    return {"path": path, "a": _short(a), "b": _short(b)}


def _short(x, lim=300):
    s = repr(x)
    return s if len(s) <= lim else s[:lim] + "..."


def walk(n):
    """All Node objects reachable through slots (independent of children())."""
    Node = sut.load().Node
    stack = [n]
    while stack:
        x = stack.pop()
        if isinstance(x, Node):
            yield x
            for s in type(x).__slots__:
                if s in _SKIP:
                    continue
                v = getattr(x, s, None)
                if isinstance(v, (Node, list, tuple)):
                    stack.append(v)
        elif isinstance(x, (list, tuple)):
            stack.extend(x)


def object_ids(n):
    """ids of all Node, list and Coord objects of a tree (for sharing checks)."""
    Node = sut.load().Node
    ids = {}
    stack = [n]
    while stack:
        x = stack.pop()
        if isinstance(x, Node):
            ids[id(x)] = x
            c = getattr(x, "coord", None)
            if c is not None and not isinstance(c, (str, int)):
                ids[id(c)] = c
            for s in type(x).__slots__:
                if s in _SKIP:
                    continue
                v = getattr(x, s, None)
                if isinstance(v, (Node, list)):
                    stack.append(v)
        elif isinstance(x, list):
            ids[id(x)] = x
            stack.extend(x)
    return ids


def depth(n):
    Node = sut.load().Node
    best = 0
    stack = [(n, 1)]
    while stack:
        x, d = stack.pop()
        if isinstance(x, Node):
            best = max(best, d)
            for s in type(x).__slots__:
                if s in _SKIP:
                    continue
                v = getattr(x, s, None)
                if isinstance(v, (Node, list, tuple)):
                    stack.append((v, d + 1))
        elif isinstance(x, (list, tuple)):
            for y in x:
                stack.append((y, d))
    return best
