"""Worker process: python -m vf.worker <CHECK> <spec.json> <out.json>"""
import importlib
import json
import sys
import threading


def main():
    check_id, spec_path, out_path = sys.argv[1:4]
    with open(spec_path) as f:
        spec = json.load(f)
    spec["_marker_path"] = out_path + ".marker"
    mod = importlib.import_module(f"vf.checks.{check_id.lower()}")
    sys.setrecursionlimit(max(sys.getrecursionlimit(), spec.get("recursion_limit", 20000)))
    result = {}

    def run():
        result["r"] = mod.run_shard(spec)

    # run in a thread with a large stack so deep (legitimate) recursion inside
    # the harness (nf, generators) never kills the interpreter
    threading.stack_size(512 * 1024 * 1024)
    t = threading.Thread(target=run)
    t.start()
    t.join()
    if "r" not in result:
        sys.exit(3)
    with open(out_path, "w") as f:
        json.dump(result["r"], f)


if __name__ == "__main__":
    main()
