"""Sharded execution: every shard is one subprocess with a timeout (never a
multiprocessing.Pool - a dying child would hang it)."""
import concurrent.futures as cf
import json
import os
import subprocess
import sys
import tempfile
import time

NCPU = min(16, os.cpu_count() or 1)
PY = sys.executable
ROOT = os.path.dirname(os.path.dirname(os.path.abspath(__file__)))


def run_shards(check_id, specs, timeout_s=900, max_workers=None):
    """Run worker processes; returns list of (spec, result_or_None, note)."""
    tmp = tempfile.mkdtemp(prefix="vf-run-")
    out = [None] * len(specs)

    def one(i, spec):
        sp = os.path.join(tmp, f"s{i}.json")
        op = os.path.join(tmp, f"o{i}.json")
        with open(sp, "w") as f:
            json.dump(spec, f)
        t0 = time.time()
        env = dict(os.environ)
        env["PYTHONHASHSEED"] = "0"
        env["PYTHONDONTWRITEBYTECODE"] = "1"
        try:
            r = subprocess.run([PY, "-m", "vf.worker", check_id, sp, op], cwd=ROOT, env=env,
                               capture_output=True, text=True, timeout=spec.get("timeout_s", timeout_s))
        except subprocess.TimeoutExpired:
            marker = _read_marker(op + ".marker")
            return (spec, None, {"why": "timeout", "wall_s": round(time.time() - t0, 1), "marker": marker})
        if r.returncode != 0 or not os.path.exists(op):
            marker = _read_marker(op + ".marker")
            return (spec, None, {"why": f"worker exit {r.returncode}", "stderr": r.stderr[-3000:], "marker": marker})
        try:
            with open(op) as f:
                res = json.load(f)
        except Exception as e:  # noqa: BLE001
            return (spec, None, {"why": f"unreadable result: {e}"})
        res["_wall_s"] = round(time.time() - t0, 2)
        return (spec, res, None)

    try:
        with cf.ThreadPoolExecutor(max_workers=max_workers or NCPU) as ex:
            futs = {ex.submit(one, i, s): i for i, s in enumerate(specs)}
            for fu in cf.as_completed(futs):
                out[futs[fu]] = fu.result()
    finally:
        import shutil
        shutil.rmtree(tmp, ignore_errors=True)
    return out


def _read_marker(path):
    try:
        with open(path) as f:
            return f.read()[-4000:]
    except OSError:
        return None
