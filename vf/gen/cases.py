"""Deterministic case recipes: build(recipe) -> Case(model, tokens, layout).

A recipe is a small JSON-able dict, so a violation can be replayed by rebuilding
exactly the same model / rendering / layout."""
import itertools
import random

from . import gens, layout as lay, model
from .model import M, basic_specs, dtor, ident, specs_of, tu, wrap_function


class Case:
    def __init__(self, recipe, m, E, L):
        self.recipe = recipe
        self.model = m
        self.E = E
        self.L = L
        self.text = L.text


# ------------------------------------------------------------------ expression contexts
def _fn(items):
    return wrap_function(items)


EXPR_CONTEXTS = {
    "stmt": lambda es: [_fn([M("expr", e=e) for e in es])],
    "init": lambda es: [_fn([M("decl", specs=basic_specs(["int"]), dtors=[dtor(f"v{i}", init=e)]) for i, e in enumerate(es)])],
    "if": lambda es: [_fn([M("if", c=e, then=M("empty"), els=None) for e in es])],
    "while": lambda es: [_fn([M("while", c=e, body=M("empty")) for e in es])],
    "do": lambda es: [_fn([M("do", body=M("empty"), c=e) for e in es])],
    "switch": lambda es: [_fn([M("switch", c=e, body=M("empty")) for e in es])],
    "for-init": lambda es: [_fn([M("for", init=e, c=None, next=None, body=M("empty")) for e in es])],
    "for-cond": lambda es: [_fn([M("for", init=None, c=e, next=None, body=M("empty")) for e in es])],
    "for-next": lambda es: [_fn([M("for", init=None, c=None, next=e, body=M("empty")) for e in es])],
    "return": lambda es: [_fn([M("return", e=e) for e in es])],
    "arg": lambda es: [_fn([M("expr", e=M("call", fn=ident("g"), args=[ident("p"), e, ident("q")])) for e in es])],
    "subscript": lambda es: [_fn([M("expr", e=M("idx", a=ident("p"), i=e)) for e in es])],
    "ternary-mid": lambda es: [_fn([M("expr", e=M("cond", c=ident("p"), t=e, e=ident("q"))) for e in es])],
    "bound": lambda es: [_fn([M("decl", specs=basic_specs(["int"]), dtors=[dtor(f"v{i}", [("arr", {"size": e})])]) for i, e in enumerate(es)])],
    "case": lambda es: [_fn([M("switch", c=ident("p"), body=M("block", items=[M("case", e=e, stmt=M("empty")) for e in es]))])],
    "bitwidth": lambda es: [M("decl", specs=specs_of(M("su", kw="struct", tag="SB", members=[
        M("decl", specs=basic_specs(["int"]), dtors=[dtor(f"m{i}", bits=e)]) for i, e in enumerate(es)])), dtors=[])],
    "enumval": lambda es: [M("decl", specs=specs_of(M("enum", tag=None, items=[
        M("enumerator", name=f"EV{i}", value=e) for i, e in enumerate(es)])), dtors=[])],
    "sassert": lambda es: [M("sassert", cond=e, msg=['"m"']) for e in es],
    "alignas": lambda es: [M("decl", specs=basic_specs(["int"], align=[M("alignas", e=e)]), dtors=[dtor(f"v{i}")]) for i, e in enumerate(es)],
    "designator": lambda es: [M("decl", specs=basic_specs(["int"]), dtors=[dtor("arr", [("arr", {"size": None})], init=M("ilist", items=[
        M("iitem", desig=[("[", e)], init=gens.int_const("1")) for e in es], trailing_comma=False))])],
    "sizeof": lambda es: [_fn([M("expr", e=M("pre", op="sizeof", e=e)) for e in es])],
    "kr-bound-param": lambda es: [M("decl", specs=basic_specs(["void"]), dtors=[dtor("h", [("fn", {"params": [
        M("param", specs=basic_specs(["int"]), dtor=dtor(f"p{i}", [("arr", {"size": e, "quals": ["const"], "static": "first"})])) for i, e in enumerate(es)],
        "variadic": False, "kr": None})])])],
}

_enum_cache = {}


def enum_list(nops):
    if nops not in _enum_cache:
        _enum_cache[nops] = list(gens.enum_exprs(nops))
    return _enum_cache[nops]


# ------------------------------------------------------------------ declarator contexts
def _decl_ctx(name):
    sp = lambda: basic_specs(["unsigned"], quals=["const"])  # noqa: E731
    if name == "file":
        return lambda ds: [M("decl", specs=sp(), dtors=[d]) for d in ds]
    if name == "typedef":
        return lambda ds: [M("decl", specs=basic_specs(["unsigned"], quals=["const"], storage=["typedef"]), dtors=[d]) for d in ds]
    if name == "member":
        return lambda ds: [M("decl", specs=specs_of(M("su", kw="struct", tag="SM", members=[M("decl", specs=sp(), dtors=[d]) for d in ds])), dtors=[])]
    if name == "param":
        return lambda ds: [M("decl", specs=basic_specs(["void"]), dtors=[dtor(f"g{i}", [("fn", {"params": [M("param", specs=sp(), dtor=d)], "variadic": False, "kr": None})])]) for i, d in enumerate(ds)]
    if name == "block":
        return lambda ds: [_fn([M("decl", specs=sp(), dtors=[d]) for d in ds])]
    if name == "second":
        return lambda ds: [M("decl", specs=sp(), dtors=[dtor(f"q{i}"), d]) for i, d in enumerate(ds)]
    if name == "for":
        return lambda ds: [_fn([M("for", init=M("decl", specs=sp(), dtors=[d]), c=None, next=None, body=M("empty")) for d in ds])]
    if name == "kr":
        return lambda ds: [M("funcdef", specs=basic_specs(["int"]), dtor=dtor(f"k{i}", [("fn", {"params": None, "variadic": False, "kr": [d["name"]]})]),
                             krdecls=[M("decl", specs=sp(), dtors=[d])], body=M("block", items=[])) for i, d in enumerate(ds)]
    raise KeyError(name)


def _tn_ctx(name):
    sp = lambda: basic_specs(["unsigned"], quals=["const"])  # noqa: E731
    mk = lambda d: M("tn", specs=sp(), dtor=d)  # noqa: E731
    if name == "cast":
        return lambda ds: [_fn([M("expr", e=M("cast", tn=mk(d), e=ident("a"))) for d in ds])]
    if name == "sizeof":
        return lambda ds: [_fn([M("expr", e=M("szt", tn=mk(d))) for d in ds])]
    if name == "alignof":
        return lambda ds: [_fn([M("expr", e=M("alt", tn=mk(d))) for d in ds])]
    if name == "clit":
        return lambda ds: [_fn([M("expr", e=M("clit", tn=mk(d), init=M("ilist", items=[M("iitem", desig=None, init=gens.int_const("0"))], trailing_comma=False))) for d in ds])]
    if name == "abstract-param":
        return lambda ds: [M("decl", specs=basic_specs(["void"]), dtors=[dtor(f"g{i}", [("fn", {"params": [M("param", specs=sp(), dtor=d)], "variadic": False, "kr": None})])]) for i, d in enumerate(ds)]
    if name == "alignas":
        return lambda ds: [M("decl", specs=basic_specs(["int"], align=[M("alignas", tn=mk(d))]), dtors=[dtor(f"v{i}")]) for i, d in enumerate(ds)]
    if name == "atomic":
        return lambda ds: [M("decl", specs=specs_of(M("atomic", tn=mk(d))), dtors=[dtor(f"v{i}")]) for i, d in enumerate(ds)]
    raise KeyError(name)


DECL_CONTEXTS = ["file", "typedef", "member", "param", "block", "second", "for", "kr"]
TN_CONTEXTS = ["cast", "sizeof", "alignof", "clit", "abstract-param", "alignas"]


def deriv_sequences(maxlen, nvariants=8):
    """All derivation sequences up to maxlen over the first nvariants variants, as index tuples."""
    for L in range(0, maxlen + 1):
        for seq in itertools.product(range(nvariants), repeat=L):
            yield seq


def build_derivs(seq):
    alpha = gens.deriv_alphabet()
    return [alpha[i]() for i in seq]


# ------------------------------------------------------------------ statement enumeration (reduced alphabet)
def stmt_alphabet():
    """Reduced alphabet for bounded-exhaustive statement trees: each entry is
    (name, arity, builder(children...))."""
    e = lambda: ident("c")  # noqa: E731
    n = [0]

    def lab():
        n[0] += 1
        return "L%d" % n[0]
    return [
        ("expr", 0, lambda: M("expr", e=ident("x"))),
        ("empty", 0, lambda: M("empty")),
        ("break", 0, lambda: M("break")),
        ("decl", 0, lambda: M("decl", specs=basic_specs(["int"]), dtors=[dtor("dv%d" % n.__setitem__(0, n[0] + 1) if False else "dv")])),
        ("pragma", 0, lambda: M("pragma", text="p q")),
        ("sassert", 0, lambda: M("sassert", cond=gens.int_const("1"), msg=['"m"'])),
        ("block1", 1, lambda a: M("block", items=[a])),
        ("block2", 2, lambda a, b: M("block", items=[a, b])),
        ("if", 1, lambda a: M("if", c=e(), then=a, els=None)),
        ("ifelse", 2, lambda a, b: M("if", c=e(), then=a, els=b)),
        ("while", 1, lambda a: M("while", c=e(), body=a)),
        ("do", 1, lambda a: M("do", body=a, c=e())),
        ("for", 1, lambda a: M("for", init=None, c=e(), next=None, body=a)),
        ("fordecl", 1, lambda a: M("for", init=M("decl", specs=basic_specs(["int"]), dtors=[dtor("i", init=gens.int_const("0"))]), c=None, next=e(), body=a)),
        ("switch", 1, lambda a: M("switch", c=e(), body=a)),
        ("case", 1, lambda a: M("case", e=gens.int_const("1"), stmt=a)),
        ("default", 1, lambda a: M("default", stmt=a)),
        ("label", 1, lambda a: M("label", name=lab(), stmt=a)),
        ("prag", 1, lambda a: M("prag", pragmas=[M("pragma", text="omp x")], stmt=a)),
    ]


def enum_stmt_trees(depth):
    """Yield builders of all statement trees of nesting depth <= depth over the reduced alphabet."""
    alpha = stmt_alphabet()
    leaves = [(nm, b) for nm, ar, b in alpha if ar == 0]
    inner = [(nm, ar, b) for nm, ar, b in alpha if ar > 0]
    # statements that are not valid as a sub-statement (declaration-like items) only appear as block items
    non_sub = {"decl", "pragma", "sassert"}

    def gen(d, as_sub):
        for nm, b in leaves:
            if as_sub and nm in non_sub:
                continue
            yield (nm,), b
        if d <= 0:
            return
        for nm, ar, b in inner:
            child_sub = not nm.startswith("block")
            if nm == "prag" and not as_sub:
                continue
            if ar == 1:
                for cn, cb in gen(d - 1, child_sub):
                    if nm == "ifelse":
                        continue
                    yield (nm, cn), (lambda b=b, cb=cb: b(cb()))
            else:
                first = list(gen(d - 1, child_sub))
                for (c1, b1) in first:
                    for (c2, b2) in gen(d - 1, child_sub):
                        if nm == "ifelse":
                            t = b1()
                            if gens.ends_open_if(t):
                                continue
                        yield (nm, c1, c2), (lambda b=b, b1=b1, b2=b2: b(b1(), b2()))
    return gen(depth, True)


_stmt_cache = {}


def stmt_list(depth):
    if depth not in _stmt_cache:
        _stmt_cache[depth] = list(enum_stmt_trees(depth))
    return _stmt_cache[depth]


N_UNARY_STMT = len([1 for nm, ar, b in stmt_alphabet() if ar == 1 and nm != "block1"])


# ------------------------------------------------------------------ build
def build(recipe):
    k = recipe["k"]
    rnd = random.Random(recipe.get("seed", 0))
    mode = recipe.get("render", "min")
    style = recipe.get("style", "single")
    if k == "tu":
        m = gens.rand_tu(rnd, nitems=rnd.choice([2, 4, 6]), depth=rnd.choice([2, 3]))
        mode = recipe.get("render") or rnd.choice(["min", "full", "rand"])
        style = recipe.get("style") or rnd.choice(lay.STYLES)
    elif k == "exprs":
        builders = enum_list(recipe["nops"])[recipe["start"]:recipe["start"] + recipe["count"]]
        es = [b() for b in builders]
        m = tu(EXPR_CONTEXTS[recipe.get("ctx", "stmt")](es))
    elif k == "rexprs":
        es = [gens.rand_expr(rnd, recipe.get("depth", 5)) for _ in range(recipe["count"])]
        m = tu(gens.prelude() + EXPR_CONTEXTS[recipe.get("ctx", "stmt")](es))
    elif k == "derivs":
        seqs = recipe["seqs"]
        ctx = recipe["ctx"]
        if ctx in DECL_CONTEXTS:
            ds = [dtor(f"x{i}", build_derivs(s)) for i, s in enumerate(seqs)]
            m = tu(gens.prelude() + _decl_ctx(ctx)(ds))
        else:
            ds = [dtor(None, build_derivs(s)) for s in seqs]
            m = tu(gens.prelude() + _tn_ctx(ctx)(ds))
    elif k == "rdecls":
        items = gens.prelude()
        for _ in range(recipe["count"]):
            items.append(gens.rand_decl(rnd, 2, rnd.choice(["file", "file", "typedef"])))
        m = tu(items)
    elif k == "stmts":
        trees = stmt_list(recipe["depth"])[recipe["start"]:recipe["start"] + recipe["count"]]
        m = tu([wrap_function([M("block", items=[b()]) for _, b in trees])])
    elif k == "stmts3":
        # depth-3 trees: one unary construct (index 'outer') wrapped around depth-2 trees
        un = [(nm, b) for nm, ar, b in stmt_alphabet() if ar == 1 and nm not in ("block1",)]
        onm, ob = un[recipe["outer"]]
        trees = [t for t in stmt_list(2) if t[0][0] not in ("decl", "pragma", "sassert")]
        trees = trees[recipe["start"]:recipe["start"] + recipe["count"]]
        m = tu([wrap_function([M("block", items=[ob(b())]) for _, b in trees])])
    elif k == "rstmts":
        sg = gens.StmtGen(rnd, expr_depth=1)
        m = tu(gens.prelude() + [wrap_function(sg.items(recipe.get("depth", 4), False, False) + [sg.stmt(recipe.get("depth", 4))], name=f"f{i}")
                                 for i in range(recipe.get("count", 3))])
    elif k == "k31":
        # witnesses of the open finding K31 (pragma between 'switch (...)' and its body) and their twins without the pragma
        def sw(body):
            return M("switch", c=ident("c"), body=body)
        blk = lambda: M("block", items=[M("case", e=gens.int_const("1"), stmt=M("expr", e=ident("x"))), M("expr", e=ident("y")),  # noqa: E731
                                         M("case", e=gens.int_const("2"), stmt=M("default", stmt=M("break")))])
        chain = lambda: M("case", e=gens.int_const("1"), stmt=M("default", stmt=M("expr", e=ident("x"))))  # noqa: E731
        pr = lambda st: M("prag", pragmas=[M("pragma", text="omp p")], stmt=st)  # noqa: E731
        m = tu([wrap_function([sw(pr(blk())), sw(blk()), sw(pr(chain())), sw(chain())])])
    else:
        raise KeyError(k)
    cfg = model.RenderCfg(mode, random.Random(recipe.get("seed", 0) + 1))
    E = model.render_tu(m, cfg)
    L = lay.layout(E.toks, E.directive, style, random.Random(recipe.get("seed", 0) + 2), recipe.get("filename", "f.c"))
    return Case(recipe, m, E, L)
