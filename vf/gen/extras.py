"""Hand-written programs for the corners the generators do not reach: rare C99/C11 forms and
constructs that only pycparser's own grammar accepts (GNU / C23 extensions it takes without
complaint).  Every text is accepted by the unchanged tree; checks whose quantifier is "every
AST the parser returns" / "every source text that parses" add them to their corpus."""

_SE = "({ int q = 1; q; })"

# (name, text)
TEXTS = [
    ("stmt-expr-return", "int f(int a, int *p) { return %s; }" % _SE),
    ("stmt-expr-conds", "int f(int a, int *p) { if (%s) a = 1; while (%s) a = 1; do a = 2; while (%s); switch (%s) { case 1: ; } return a; }" % ((_SE,) * 4)),
    ("stmt-expr-for", "int f(int a, int *p) { for (%s; %s; %s) ; return p[%s]; }" % ((_SE,) * 4)),
    ("stmt-expr-args", "int f(int a, int *p) { a = %s; g(%s, %s); %s; return (%s, %s); }" % ((_SE,) * 6)),
    ("stmt-expr-inits", "int f(int a, int *p) { int b = %s; int c[] = { %s, [1] = %s }; struct s v = { .m = %s }; return p[%s][%s]; }" % ((_SE,) * 6)),
    ("stmt-expr-nested", "int f(int a) { a = ({ if (a) a = 1; else a = 2; a; }); return ({ ({ a; }); }); }"),
    ("offsetof", "int x = offsetof(struct s, a.b[1].c); int y = offsetof(struct s, m[2 + 3]);"),
    ("int128-pragma-op", "__int128 big; unsigned __int128 ubig = 1; void f(void) { _Pragma(\"omp p\") ; }"),
    # a declaration directly after a label / case / default (C23, GNU): the label gets an empty statement
    ("decl-after-case", "int classify(int kind, int v) { switch (kind) { case 0: int twice = v * 2, *pt = &twice, arr[2]; return twice; "
                        "case 1: v++; default: static const char *msg, sep = ','; return v; } }"),
    ("decl-after-label", "void g(int sel) { retry: static const char *msg, sep = ','; again: int n = 1, *p = &n, w[2]; if (sel) goto retry; }"),
    # array declarator forms of C99 6.7.5.2 / 6.7.5.3 that only occur in parameters
    ("vla-star-quals", "void scale(int n, int m, double a[const *][m], int b[restrict volatile *], int c[*][*], int [const *]);"),
    ("array-quals-only", "int head(int dst[restrict], const int src[restrict], int n, int w[const restrict], int v[restrict static 2], int u[static const 3]) "
                         "{ dst[0] = src[0] + n; return w[0] + v[1] + u[2]; }"),
    ("kr-order", "int copy(dst, src, n) register int n; const char *src; char *dst; { return n; } int two(a, b, c) int c, a; char *b; { return a + c; }"),
    ("for-decl-inits", "struct P { int x, y; }; void g(int a, int b) { for (struct P p = {0, 0}, q = {1, 1}; p.x < q.x; p.x++) ; "
                       "for (int i = 0, j = (a, b), k[2] = {1, 2}; i < j; i++) ; }"),
    ("repeated-funcspec", "inline static inline int cube(int x) { return x * x * x; } _Noreturn _Noreturn void die(void);"),
    ("pragma-odd-text", "#pragma GCC diagnostic ignored \"-Wunknown-pragmas\"\n#pragma message(\"unknown pragma ignored\")\n#pragma search_dir C:\\sdk\\include\\\n"
                        "void f(void) {\n#pragma pragma pragma\n ;\n#pragma once \\\n }\n"),
    ("typedef-member-access", "typedef int Name; struct S { Name Name; } s, *p; int f(void) { s . Name = 1; s.Name = 2; return p -> Name + p->Name + (&s) ->\nName; }"),
    ("casts-chain", "int v = (int)(long)(char)1; long w = (long)(int)-(short)2 + (char)(int)(long)3 + 1;"),
    ("assign-to-conditional", "void f(int a, int b, int c, int d) { (a ? b : c) = d; (a > 0 ? b : c) += a; (a, b) = c; }"),
    ("wide-strings-escapes", "void *s = L\"\\\"\"; void *t = u8\"say \\\"hi\\\"\" u8\"\\\"\"; void *u = U\"a\\\\\" U\"\\\"\"; char *e = \"\\\"\" \"\\\\\";"),
    ("empty-bodies", "void f(int a) { if (a) { } else { } for (;;) { } while (a) { } do { } while (a); switch (a) { } { } { { } } }"),
    ("if-else-ladders", "void f(int a, int b) { if (a) if (b) a = 1; else { } else a = 2; if (a) while (b) if (a) b = 1; else ; else b = 2; }"),
    ("bitfields-mix", "typedef int T; struct B { T : 3; const T : 2; int a : 1, : 2, b : 3; unsigned : 0; T c : 4; };"),
    ("paren-typedef-params", "typedef char TT; int f1(int *(TT)); int f2(int (*(TT))); int f3(int * const (TT)); int f4(int (TT), int (*pf)(TT), int (*)(TT));"),
    ("kr-undeclared", "int scale(v, flag, n) int n; double *v; { return flag ? n : 0; } int none(a, b) { return a; } int nolist() { return 0; }"),
    ("raw-tabs-in-strings", "const char *msg = \"id\tname\tvalue\"; int after = sizeof \"\t\"; void *w = L\"a\tb\" L\"\t\";"),
    ("raw-tabs-in-chars", "int width = '\t' + L'\t'; int two = 'a\t';"),
    ("raw-tabs-in-pragma", "int before;\n#pragma omp\tparallel  \tfor\nint after;"),
    ("pragmas-then-empty", "void f(int pending) { while (pending)\n#pragma omp taskwait\n#pragma omp flush\n ; if (pending)\n#pragma one\n ; else\n#pragma a\n#pragma b\n ; lab:\n#pragma x\n#pragma y\n ; }"),
    ("adjacent-empty-strings", "const char *a = \"abc\" \"\" \"d\"; const char *b = \"x\" \"\"; void *c = L\"ab\" L\"\" L\"c\"; const char *d = \"\" \"\" \"e\" \"\";"),
    ("for-decl-nested-decls", "int add(int a, int b); int g(int n) { int s = 0; for (int i = 0, (*op)(int a, int b) = add, z = (int)sizeof(struct { char c; int v; }); "
                              "i < n; i++) s += op(i, z); return s; }"),
    ("label-runs", "void f(int x) { a: b: c: x++; d: e: f: g: ; h: ; int y; y = x; }"),
    ("cast-of-compound-literal", "struct S { int a; }; void f(int *p) { long x = (long)(int){1}; p = (int *)(int[]){1, 2}; (void)(struct S){0}; x = (long)((int){2}); }"),
    ("sizeof-postfix", "int f(int *p, int x) { return (sizeof x)[p] + (sizeof(int))[p] + sizeof(x)[p] + sizeof (p)[0]; }"),
    ("assignment-chains", "void f(int a, int b, int c, int d) { a = b += c = d; a = (b = c); a = b = c ? d : (a = 1); }"),
    ("atomic-typenames", "int n1 = sizeof(_Atomic(int)); int n2 = _Alignof(_Atomic(long)); void f(int y, int *p) { y = (_Atomic(int))y; p = &(_Atomic(int)){0}; y = sizeof(_Atomic(int *)); }"),
    ("mixed-ops-bare", "unsigned mix(unsigned a, unsigned b, unsigned c) { return a | b ^ c & a, a ^ b | c, a < b * c + a, a || b == c && a, a | b << c & a, a - b - c, a / b * c % a; }"),
]
