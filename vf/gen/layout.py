"""Layout stage: token list -> text, recording the true (file, line, column) of
every token (ref.lines: presumed line/file as re-based by #line / linemarkers)."""
from ..ref import lex as rlex

STYLES = ["single", "lines", "random", "minimal", "marked", "tabs"]
# 'samepos': the same linemarker before every token, so that all tokens share one (file, line, column)


class Layout:
    def __init__(self, text, pos, strpos, filename):
        self.text = text
        self.pos = pos        # token index -> (file, line, col); for '#pragma' lines: position of the word 'pragma'
        self.strpos = strpos  # directive token index -> (file, line, col) of the pragma text (or None)
        self.filename = filename
        self.index = {}   # (file, line, col) -> [token indexes] (linemarkers can make positions collide)
        for i, p in enumerate(pos):
            self.index.setdefault(p, []).append(i)
        for i, p in strpos.items():
            self.index.setdefault(p, []).append(i)


def layout(toks, directive, style, rnd, filename="f.c", marker_p=0.12):
    out = []
    line = 1
    col = 1
    fname = filename
    pos = []
    strpos = {}

    def emit(s):
        nonlocal line, col
        out.append(s)
        nl = s.count("\n")
        if nl:
            line += nl
            col = len(s) - s.rfind("\n")
        else:
            col += len(s)

    def fresh_line():
        if col != 1:
            emit("\n")

    def marker():
        nonlocal line, fname
        fresh_line()
        r = rnd.random()
        nl = rnd.randrange(1, 900)
        if r < 0.5:
            nf = rnd.choice(["inc.h", "a/b.h", "other.c", filename, "sp ace.h"])
            emit(f'# {nl} "{nf}"{rnd.choice(["", " 1", " 2", " 1 3", " 3 4"])}\n')
            fname = nf
        elif r < 0.75:
            emit(f"#line {nl}\n")
        else:
            nf = rnd.choice(["l.h", "m.c"])
            emit(f'#line {nl} "{nf}"\n')
            fname = nf
        line = nl

    prev = None
    for i, t in enumerate(toks):
        if i in directive:
            fresh_line()
            if style == "marked" and rnd.random() < marker_p * 2:
                marker()      # a linemarker directly in front of a #pragma line (and often one right after it)
            # '#pragma text' with random inner spacing
            body = t[len("#pragma"):].strip()
            emit("#")
            if style in ("random", "marked", "tabs") and rnd.random() < 0.3:
                emit(rnd.choice([" ", "\t", "  "]))
            pos.append((fname, line, col))
            emit("pragma")
            if body:
                emit(rnd.choice([" ", "  ", "\t"]) if style in ("random", "marked", "tabs") else " ")
                strpos[i] = (fname, line, col)
                emit(body)
            emit("\n")
            prev = None
            continue
        # separator before token
        if style == "samepos":
            fresh_line()
            emit('# 7 "same.c"\n')
            fname = "same.c"
            line = 7
        elif style == "marked" and rnd.random() < marker_p:
            marker()
            if rnd.random() < 0.5:
                emit(rnd.choice(["  ", "\t", " \n ", ""]))
        elif prev is None:
            if style in ("random", "marked", "tabs") and rnd.random() < 0.3:
                emit(rnd.choice([" ", "\t", "  ", "\n"]))
        elif style == "single":
            emit(" ")
        elif style == "lines":
            emit("\n")
        elif style == "tabs":
            emit(rnd.choice(["\t", "\t\t", " \t", "\n\t", "\f", " \v", "\f\n", "\v\t"]))
        elif style in ("random", "marked"):
            emit(rnd.choice([" ", " ", "  ", "\n", "\t", " \t ", "\n\n   ", "\n  ", "\n  \n", "\n\t\n\t", " \n \n ", "\n   \n\t \n  "]))
        elif style == "minimal":
            # pairwise longest-match is not enough for periods: '.' '.' '.' written without blanks is the one token '...'
            if not rlex.adjacent_ok(prev, t) or (prev == "." and t == "."):
                emit(" ")
        pos.append((fname, line, col))
        emit(t)
        prev = t
    if style in ("random", "marked") and rnd.random() < 0.5:
        emit("\n")
    return Layout("".join(out), pos, strpos, filename)
