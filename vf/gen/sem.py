"""Semantic generator: type-correct, constraint-clean C99 / C11 translation units that
gcc -std=c99|c11 -pedantic-errors accepts (no GNU extensions, no double-underscore
keywords).  Every function has external linkage so that gcc -S output covers it.

Programs are tagged 'c99' or 'c11' by the features used.  Features that trigger an
*open known finding* (array designator with an identifier index, tag definition shared by
several declarators, mixed-width string concatenation, shadowed typedef names) are kept
out of the main stream and only produced when asked for (kf=...)."""
import random

INT_TYPES = ["char", "signed char", "unsigned char", "short", "unsigned short", "int", "unsigned", "unsigned int", "long",
             "unsigned long", "long long", "unsigned long long int", "_Bool", "long int", "short int", "int unsigned"]
FLT_TYPES = ["float", "double", "long double"]

PRELUDE_C99 = """
enum color { RED, GREEN = 5, BLUE };
struct point { int x; int y; };
struct rec {
  int a;
  unsigned b : 3;
  int c : 4;
  char name[8];
  double d;
  struct rec *next;
  int arr[3];
  struct point pt;
  union { int ui; float uf; } u;
  int (*fn)(int);
  const char *label;
};
union val { int i; float f; unsigned char bytes[4]; };
typedef unsigned long ulong_t;
typedef struct rec rec_t;
typedef int (*fn_t)(int);
typedef int arr3_t[3];
typedef enum color color_t;
extern int gi;
extern double gd;
extern int garr[6];
extern struct rec grec;
extern char gbuf[16];
int fi(int a, int b);
double fd(double x);
void fv(void);
int *fpi(int *p);
int fvar(const char *fmt, ...);
int fn1(int x);
struct point mkpt(int x, int y);
"""
PRELUDE_C11 = """
_Static_assert(sizeof(int) >= 2, "int is too small");
_Noreturn void die(int code);
struct anon11 { int tag; union { int ai; float af; }; struct { short ax, ay; }; };
_Alignas(16) extern char aligned_buf[32];
extern _Atomic int at_counter;
extern _Thread_local int tls_var;
"""


class Sem:
    def __init__(self, rnd, c11=False, kf=None):
        self.r = rnd
        self.c11 = c11
        self.kf = kf or set()
        self.n = 0
        self.case_n = 0
        self.used_c11 = False

    # ------------------------------------------------------------ helpers
    def fresh(self, p="v"):
        self.n += 1
        return f"{p}{self.n}"

    def pick(self, xs):
        return self.r.choice(xs)

    def iconst(self, small=False):
        r = self.r
        v = r.randrange(0, 10 if small else 200)
        forms = [str(v), "0x%x" % v, "0%o" % v if v else "0", f"{v}u", f"{v}L", f"{v}UL", f"{v}ll", f"{v}ULL", f"{v}lu", "0X%X" % v]
        if small:
            return str(v)
        c = r.random()
        if c < 0.6:
            return str(v)
        if c < 0.9:
            return r.choice(forms)
        return r.choice(["'a'", "'\\n'", "'\\0'", "'\\x41'", "'\\101'", "'\\\\'", "'\\''", "L'w'"] + self.BRACKET_CHARS)

    # literals whose text contains brackets, quotes and separators: anything that scans generated text meets them
    BRACKET_CHARS = ["'('", "')'", "'['", "']'", "'{'", "'}'", "'\"'", "';'", "','", "'?'", "':'", "L'('", "'\\\\'"]
    BRACKET_STRS = ['"("', '")"', '"f("', '"a)b"', '"[{("', '"}])"', '"\\"("', '"\\\\"', '";"', '"/*"', '"//"', '"\'"']

    # runs of adjacent string literals with empty pieces in every position (typical after macro expansion)
    ADJ_STRS = ['"abc" "" "d"', '"x" ""', '"" "y"', '"" "" "e" ""', '"id=%d" "" "\\n"', '"a\\"" "" "\\"b"', '"" ""']

    def fconst(self):
        return self.r.choice(["1.5", ".5", "2.", "1e3", "1.5e-3", "2.5f", "3.0L", "1E+2", "0x1.8p3", "0x1p-2f", "10e1F", "0.0", "09.5", "08e1", "019.", "0078.25f", "1e5f", "2E-3l"])

    # ------------------------------------------------------------ expressions by kind
    def int_lvalue(self, E, d=1):
        r = self.r
        opts = list(E["int"])
        c = []
        if opts:
            c.append(lambda: r.choice(opts))
        if E["arr"]:
            c.append(lambda: "%s[%s]" % (r.choice(E["arr"])[0], self.index(E, d)))
        if E["pint"]:
            c.append(lambda: "*" + r.choice(E["pint"]))
            c.append(lambda: "%s[%s]" % (r.choice(E["pint"]), self.iconst(True)))
        if E["rec"]:
            c.append(lambda: r.choice(E["rec"]) + r.choice([".a", ".pt.x", ".pt.y", ".u.ui", ".arr[1]", ".arr[%s]" % self.iconst(True)]))
        if E["prec"]:
            c.append(lambda: r.choice(E["prec"]) + r.choice(["->a", "->pt.x", "->u.ui", "->arr[2]", "->next->a", "->next->pt.y"]))
            c.append(lambda: "(*%s).a" % r.choice(E["prec"]))
        if not c:
            return "gi"
        return r.choice(c)()

    def index(self, E, d):
        if d <= 0 or self.r.random() < 0.6:
            return self.iconst(True)
        return "(%s) %% 3" % self.int_expr(E, d - 1) if self.r.random() < 0.5 else self.r.choice(E["int"] or ["gi"])

    def int_expr(self, E, d):
        r = self.r
        if d <= 0 or r.random() < 0.2:
            c = r.random()
            if c < 0.35:
                return self.iconst()
            if c < 0.75:
                return self.int_lvalue(E, 0)
            if c < 0.85 and E["rec"]:
                return r.choice(E["rec"]) + r.choice([".b", ".c"])
            if c < 0.9:
                return r.choice(["RED", "GREEN", "BLUE"])
            return "sizeof(%s)" % self.type_name() if c < 0.95 else self.iconst()
        a = lambda: self.int_expr(E, d - 1)  # noqa: E731
        c = r.random()
        if c < 0.04:
            return "(" + self.bare_chain(E) + ")"
        if c < 0.075:
            # stacks of prefix / postfix operators whose characters would merge into a longer token if printed without
            # a separator or parentheses ('- --x', 'x - -y', 'x++ + ++y', '- -x', '& *p' ...)
            lv, lv2 = self.int_lvalue(E, 0), self.int_lvalue(E, 0)
            return "(" + r.choice([f"- --{lv}", f"+ ++{lv}", f"- -{lv}", f"+ +{lv}", f"-~{lv}", f"!-{lv}", f"- - -{lv}", f"-(--{lv})", f"+(++{lv})",
                                   f"{lv} - -{lv2}", f"{lv} + +{lv2}", f"{lv} - --{lv2}", f"{lv} + ++{lv2}", f"{lv}-- - --{lv2}",
                                   f"{lv}++ + ++{lv2}", f"- {lv}--", f"+ {lv}++", f"!!{lv}", f"~-{lv}", f"-+-{lv}", f"{lv} & ~{lv2}",
                                   f"{lv} & -{lv2}", f"sizeof -{lv}", f"- (int)sizeof {lv}", f"{lv} / -{lv2 } * 0 + {lv} % (+{lv2} | 1)"]) + ")"
        if c < 0.12:
            # character-class tests and indexed string literals: operands that begin with '(' and end with ')' and
            # contain bracket characters inside literals
            k = r.random()
            if k < 0.6:
                t = "%s %s %s" % ("(%s %s %s)" % (self.int_lvalue(E, 0), r.choice(["==", "!=", "<"]), r.choice(self.BRACKET_CHARS)),
                                  r.choice(["||", "&&", "+", "-", "|"]),
                                  "(%s %s %s)" % (self.op(a()), r.choice(["==", "!=", ">"]), r.choice(self.BRACKET_CHARS)))
                # ... used as an operand of a tighter-binding operator half of the time
                return t if r.random() < 0.5 else r.choice(["!(%s)", "-(%s)", "~(%s)", "2 * (%s)", "(int)(%s)", "(%s) * 3", "garr[(%s) & 1]"]) % t
            if k < 0.8:
                return "%s[%s]" % (r.choice(self.BRACKET_STRS), r.choice(["0", "(0)", "gi & 0"]))
            return "(fvar(%s, %s) %s (int)sizeof(%s))" % (r.choice(self.BRACKET_STRS), a(), r.choice(["+", "-", "=="]), r.choice(self.BRACKET_STRS))
        if c < 0.30:
            return "%s %s %s" % (self.op(a()), r.choice(["+", "-", "*", "&", "|", "^", "<", ">", "<=", ">=", "==", "!=", "&&", "||"]), self.op(a()))
        if c < 0.36:
            return "%s %s %s" % (self.op(a()), r.choice(["/", "%"]), "(%s | 1)" % a())
        if c < 0.42:
            return "%s %s %s" % (self.op(a()), r.choice(["<<", ">>"]), self.iconst(True))
        if c < 0.50:
            return "%s ? %s : %s" % (self.op(a()), a(), self.op(a()))
        if c < 0.58:
            return "%s%s" % (r.choice(["-", "~", "!", "+"]), self.op(a(), unary=True))
        if c < 0.64:
            return "(%s)%s" % (r.choice(INT_TYPES + ["color_t", "enum color", "ulong_t"]), self.op(a(), unary=True))
        if c < 0.70:
            lv = self.int_lvalue(E, d - 1)
            return r.choice(["++%s", "--%s", "%s++", "%s--"]) % lv
        if c < 0.78:
            return "(%s %s %s)" % (self.int_lvalue(E, d - 1), r.choice(["=", "+=", "-=", "*=", "&=", "|=", "^=", "<<=", ">>="]), a())
        if c < 0.86:
            return r.choice([lambda: "fi(%s, %s)" % (a(), a()), lambda: "fn1(%s)" % a(), lambda: "fvar(\"%%d\", %s)" % a(),
                             lambda: "fvar(\"x\")", lambda: "(*gfn)(%s)" % a(), lambda: "gfn(%s)" % a(),
                             lambda: "grec.fn(%s)" % a(), lambda: "mkpt(%s, 1).x" % a()])()
        if c < 0.90:
            return "(%s, %s)" % (a(), a())
        if c < 0.94:
            return r.choice(["sizeof %s" % self.int_lvalue(E, 0), "sizeof(%s)" % self.type_name(), "sizeof((%s) + 0)" % a(),
                             "(int)sizeof(struct rec)", "sizeof garr / sizeof garr[0]"])
        if c < 0.97:
            return "(int)(%s)" % self.flt_expr(E, d - 1)
        if E["pint"]:
            return "(%s != 0)" % r.choice(E["pint"]) if r.random() < 0.5 else "(%s == %s)" % (r.choice(E["pint"]), r.choice(E["pint"]))
        return a()

    def op(self, s, unary=False):
        """Parenthesise an operand unless it is obviously primary; sometimes leave it bare when precedence allows."""
        if s.replace("_", "").isalnum():
            return s
        return "(" + s + ")"

    def flt_expr(self, E, d):
        r = self.r
        if d <= 0 or r.random() < 0.3:
            c = r.random()
            if c < 0.4:
                return self.fconst()
            if E["flt"] and c < 0.8:
                return r.choice(E["flt"])
            return r.choice(["gd", "grec.d", "grec.u.uf"])
        a = lambda: self.flt_expr(E, d - 1)  # noqa: E731
        c = r.random()
        if c < 0.5:
            return "%s %s %s" % (self.op(a()), r.choice(["+", "-", "*", "/"]), self.op(a()))
        if c < 0.65:
            return "fd(%s)" % a()
        if c < 0.8:
            return "(%s)%s" % (r.choice(["double", "float", "long double"]), self.op(self.int_expr(E, d - 1)))
        if c < 0.9:
            return "%s ? %s : %s" % (self.op(self.int_expr(E, d - 1)), a(), self.op(a()))
        return "-%s" % self.op(a())

    def pint_expr(self, E, d):
        r = self.r
        c = r.random()
        opts = []
        if E["pint"]:
            opts.append(lambda: r.choice(E["pint"]))
            opts.append(lambda: "%s + %s" % (r.choice(E["pint"]), self.iconst(True)))
            opts.append(lambda: "fpi(%s)" % r.choice(E["pint"]))
        if E["arr"]:
            opts.append(lambda: r.choice(E["arr"])[0])
            opts.append(lambda: "&%s[%s]" % (r.choice(E["arr"])[0], self.iconst(True)))
        if E["addr_int"]:
            opts.append(lambda: "&" + r.choice(E["addr_int"]))
        opts.append(lambda: "&gi")
        opts.append(lambda: "garr")
        opts.append(lambda: "&grec.a")
        opts.append(lambda: "(int *)0")
        opts.append(lambda: "(int[]){ %s, %s }" % (self.iconst(), self.iconst()))
        return r.choice(opts)()

    def type_name(self):
        r = self.r
        return r.choice(INT_TYPES + FLT_TYPES + ["struct rec", "struct point *", "int *", "char **", "rec_t", "union val", "enum color",
                                                 "int (*)(int)", "int[3]", "const char *", "void *", "ulong_t", "arr3_t", "fn_t",
                                                 "unsigned char[4]", "struct rec *const", "volatile int"])

    # ------------------------------------------------------------ declarations (block scope)
    def new_env(self, params=None):
        E = {"int": [], "flt": [], "pint": [], "arr": [], "rec": [], "prec": [], "addr_int": [], "const": set()}
        for kind, name in params or []:
            E[kind].append(name)
            if kind == "int":
                E["addr_int"].append(name)
        return E

    def decl(self, E, d, indent):
        r = self.r
        c = r.random()
        nm = self.fresh()
        ind = " " * indent
        if c < 0.30:
            t = r.choice(INT_TYPES)
            q = r.choice(["", "", "", "volatile ", "static ", "register "])
            init = "" if r.random() < 0.3 else " = " + self.int_expr(E, d) if q != "static " else " = " + self.cexpr(1)
            s = f"{ind}{q}{t} {nm}{init};"
            E["int"].append(nm)
            if q != "register ":
                E["addr_int"].append(nm)
            return s
        if c < 0.38:
            s = f"{ind}const {r.choice(INT_TYPES)} {nm} = {self.int_expr(E, d)};"
            # const objects are only read
            return s
        if c < 0.46:
            t = r.choice(FLT_TYPES)
            s = f"{ind}{t} {nm} = {self.flt_expr(E, d)};"
            E["flt"].append(nm)
            return s
        if c < 0.56:
            k = r.randrange(2, 6)
            style = r.random()
            if style < 0.4:
                init = " = { " + ", ".join(self.int_expr(E, 1) for _ in range(r.randrange(1, k + 1))) + r.choice(["", ","]) + " }"
            elif style < 0.7:
                init = " = { [%d] = %s, [%s] = %s }" % (k - 1, self.int_expr(E, 1), self.r.choice(["0", "1", "0 + 1"]), self.iconst())
            else:
                init = ""
            s = f"{ind}int {nm}[{k}]{init};"
            E["arr"].append((nm, k))
            return s
        if c < 0.64:
            s = f"{ind}int *{nm} = {self.pint_expr(E, d)};"
            E["pint"].append(nm)
            return s
        if c < 0.74:
            style = r.random()
            if style < 0.3:
                init = " = { %s, %s, %s }" % (self.int_expr(E, 1), self.iconst(True), self.iconst(True))
            elif style < 0.6:
                init = " = { .a = %s, .d = %s, .pt = { .x = 1, .y = %s }, .arr = { [1] = 2 }, .name = \"ab\" }" % (
                    self.int_expr(E, 1), self.fconst(), self.iconst())
            elif style < 0.8:
                init = " = { .pt.x = %s, .u.uf = 1.5f, .arr[2] = %s, .fn = fn1, .label = \"l\" \"m\" }" % (self.iconst(), self.iconst())
            else:
                init = " = grec"
            s = f"{ind}struct rec {nm}{init};"
            E["rec"].append(nm)
            return s
        if c < 0.80:
            src = ("&" + r.choice(E["rec"])) if E["rec"] and r.random() < 0.6 else "&grec"
            q = r.choice(["", "", "const ", "*const "]) if False else ""
            s = f"{ind}struct rec *{nm} = {src};"
            E["prec"].append(nm)
            return s
        if c < 0.85:
            return f"{ind}struct point {nm} = (struct point){{ {self.int_expr(E, 1)}, .y = {self.iconst()} }};"
        if c < 0.89:
            return f"{ind}union val {nm} = {{ .f = {self.fconst()} }};"
        if c < 0.92:
            return f"{ind}const char *{nm} = " + r.choice(['"str"', '"a" "b" "c"', '"esc\\t\\"q\\"\\\\ \\x41\\101"', '""'] + self.ADJ_STRS) + ";"
        if c < 0.95:
            return f"{ind}typedef {r.choice(INT_TYPES)} {nm}_t; {nm}_t {nm} = {self.iconst()};" if not E["int"].append(nm) else ""
        if c < 0.97:
            return f"{ind}enum {{ {nm}_A, {nm}_B = {self.iconst(True)} + 1 }} {nm} = {nm}_A;" if not E["int"].append(nm) else ""
        if c < 0.985:
            return f"{ind}fn_t {nm} = fn1; int (*{nm}_p)(int) = &fn1;"
        if self.c11 and r.random() < 0.7:
            self.used_c11 = True
            return r.choice([f"{ind}_Alignas(8) char {nm}[8];", f"{ind}_Static_assert(sizeof(int) > 1, \"m\");",
                             f"{ind}_Atomic int {nm} = 1;", f"{ind}int {nm} = _Alignof(double);",
                             f"{ind}struct anon11 {nm} = {{ .tag = 1, .ai = 2, .ax = 3 }};"])
        return f"{ind}long double {nm} = {self.flt_expr(E, 1)};"

    def cexpr(self, d):
        """Small integer constant expression (no overflow, no division by zero)."""
        r = self.r
        if d <= 0 or r.random() < 0.4:
            return r.choice([self.iconst(True), "RED", "BLUE", "sizeof(int)", "'a'"])
        return "(%s %s %s)" % (self.cexpr(d - 1), r.choice(["+", "*", "|", "&", "^", "<<", "==", "<", "&&"]), self.iconst(True))

    # ------------------------------------------------------------ statements
    def stmt(self, E, d, indent, in_loop, in_switch, ret, labels):
        r = self.r
        ind = " " * indent
        kinds = ["expr", "expr", "expr", "assign", "assign", "if", "ifelse", "ifnest", "while", "do", "for", "fordecl", "switch", "block",
                 "return", "label", "empty", "call"]
        if in_loop:
            kinds += ["break", "continue"]
        if in_switch and not in_loop:
            kinds += ["break"]
        if d <= 0:
            kinds = ["expr", "assign", "empty", "return", "call"] + (["break"] if in_loop or in_switch else [])
        k = r.choice(kinds)
        sub = lambda **kw: self.stmt(E, d - 1, indent + 2, kw.get("loop", in_loop), kw.get("sw", in_switch), ret, labels)  # noqa: E731
        if k == "expr":
            if r.random() < 0.15:
                return f"{ind}gi = {self.bare_chain(E)};"
            return f"{ind}{self.int_expr(E, 2)};"
        if k == "assign":
            c = r.random()
            if c < 0.6:
                return f"{ind}{self.int_lvalue(E, 1)} {r.choice(['=', '+=', '-=', '*=', '/=', '%=', '&=', '|=', '^=', '<<=', '>>='])} " + \
                       (f"({self.int_expr(E, 2)}) | 1;" )
            if c < 0.8 and E["flt"]:
                return f"{ind}{r.choice(E['flt'])} {r.choice(['=', '+=', '*='])} {self.flt_expr(E, 2)};"
            if E["pint"]:
                return f"{ind}{r.choice(E['pint'])} = {self.pint_expr(E, 1)};"
            return f"{ind}gi = {self.int_expr(E, 2)};"
        if k == "call":
            return ind + r.choice(["fv();", f"(void)fi({self.int_expr(E, 1)}, 2);", f"fvar(\"%d %s\", {self.int_expr(E, 1)}, \"s\");", f"fvar(\"id=\" \"\" \"%d\", {self.int_expr(E, 1)});", f"fvar({r.choice(self.ADJ_STRS)});",
                                   f"grec.a = mkpt(1, 2).y;", "(void)0;", f"gd = fd({self.flt_expr(E, 1)});"])
        if k == "empty":
            if r.random() < 0.3:
                # a tag of an enclosing scope redefined in an inner scope (shadowing): both bodies matter
                t = self.fresh("sh")
                tag = r.choice(["struct point", "union val", "enum color"])
                if tag == "enum color":
                    return f"{ind}{{ enum color {{ {t}_X = 40, {t}_Y }} {t} = {t}_Y; gi += {t} + sizeof({t}); }}"
                body = "{ char x; char y; }" if tag == "struct point" else "{ double big[4]; char i; }"
                return f"{ind}{{ {tag} {body} {t}; {t}.{'x' if 'point' in tag else 'i'} = 1; gi += (int)sizeof({t}) + (int)sizeof({tag}); }}"
            return f"{ind}" + r.choice([";", ";", "{ }", "{ ; }"])
        if k == "if":
            return f"{ind}if ({self.int_expr(E, 2)})\n{sub()}"
        if k == "ifnest":
            # an unbraced if/else as the then-branch of an if/else: the inner else (possibly an empty block or ';') is what
            # keeps the outer else attached to the outer if
            inner_then = r.choice([f"{ind}    gi = {self.int_expr(E, 1)};", f"{ind}    {{ gi++; }}", f"{ind}    ;", f"{ind}    {{ }}"])
            inner_else = r.choice([f"{ind}    {{ }}", f"{ind}    ;", f"{ind}    {{ }}", f"{ind}    gd = 2.0;", f"{ind}    {{ gi--; }}"])
            oc = r.randrange(3)
            outer_else = f"{ind}  gi = {self.int_expr(E, 1)};" if oc == 0 else (f"{ind}  {{ }}" if oc == 1 else sub())
            wrap = r.choice(["", "", "while", "for", "label"])
            head = {"": "", "while": f"{ind}  while (gi < 0)\n", "for": f"{ind}  for (; gi < 0; gi++)\n", "label": ""}[wrap]
            return (f"{ind}if ({self.int_expr(E, 1)})\n{head}{ind}  if ({self.int_expr(E, 1)})\n{inner_then}\n{ind}  else\n{inner_else}\n"
                    f"{ind}else\n{outer_else}")
        if k == "ifelse":
            return f"{ind}if ({self.int_expr(E, 2)})\n{self.block(E, d - 1, indent + 2, in_loop, in_switch, ret, labels)}\n{ind}else\n{sub()}"
        if k == "while":
            return f"{ind}while ({self.int_expr(E, 1)})\n{sub(loop=True)}"
        if k == "do":
            return f"{ind}do\n{sub(loop=True)}\n{ind}while ({self.int_expr(E, 1)});"
        if k == "for":
            init = r.choice(["", f"{self.int_lvalue(E, 0)} = 0", f"gi = 0, gd = 1.0"])
            return f"{ind}for ({init}; {r.choice(['', self.int_expr(E, 1)])}; {r.choice(['', self.int_lvalue(E, 0) + '++', 'gi++, gi--'])})\n{sub(loop=True)}"
        if k == "fordecl":
            i = self.fresh("i")
            E2 = dict(E, int=E["int"] + [i])
            extra = r.choice(["", f", *{i}p = &{i}", f", {i}a[2] = {{ 1, 2 }}",
                              # later declarators that contain declarations of their own (parameters, struct members)
                              f", (*{i}f)(int a, int b) = fi, {i}r = {i}f({i}, 1)", f", {i}z = (int)sizeof(struct {{ char c; int v; }})",
                              f", {i}q = (gi, 2), {i}m[2] = {{ [1] = 3 }}"])
            body = self.stmt(E2, d - 1, indent + 2, True, in_switch, ret, labels)
            return f"{ind}for (int {i} = 0{extra}; {i} < {self.iconst(True)}; {i}++)\n{body}"
        if k == "switch":
            n = r.randrange(1, 4)
            out = [f"{ind}switch ({self.int_expr(E, 1)})", ind + "{"]
            for j in range(n):
                self.case_n += 1
                v = self.case_n
                lab = r.choice([str(v), f"{v} + 0", f"'\\{v % 8}' + {v - v % 8}", f"({v})", f"0x{v:x}"])
                out.append(f"{ind}  case {lab}:")
                if r.random() < 0.3:
                    self.case_n += 1
                    out.append(f"{ind}  case {self.case_n}:")
                for _ in range(r.randrange(1, 3)):
                    out.append(self.stmt(E, d - 1, indent + 4, False, True, ret, labels))
                if r.random() < 0.7:
                    out.append(f"{ind}    break;")
            if r.random() < 0.6:
                out.append(f"{ind}  default:")
                out.append(self.stmt(E, d - 1, indent + 4, False, True, ret, labels))
            out.append(ind + "}")
            return "\n".join(out)
        if k == "block":
            return self.block(E, d - 1, indent, in_loop, in_switch, ret, labels)
        if k == "return":
            if ret == "void":
                return f"{ind}return;"
            if ret == "double":
                return f"{ind}return {self.flt_expr(E, 2)};"
            if ret == "pint":
                return f"{ind}return {self.pint_expr(E, 1)};"
            if ret == "rec":
                return f"{ind}return grec;"
            return f"{ind}return {self.int_expr(E, 2)};"
        if k == "label":
            lab = self.fresh("L")
            labels.append(lab)
            return f"{ind}{lab}:\n{sub()}"
        if k == "break":
            return f"{ind}break;"
        if k == "continue":
            return f"{ind}continue;"
        raise KeyError(k)

    def block(self, E, d, indent, in_loop, in_switch, ret, labels):
        r = self.r
        ind = " " * indent
        E2 = {k: (list(v) if isinstance(v, list) else set(v)) for k, v in E.items()}
        out = [ind + "{"]
        for _ in range(r.randrange(0, 4)):
            if r.random() < 0.35:
                s = self.decl(E2, 2, indent + 2)
                if s:
                    out.append(s)
            else:
                out.append(self.stmt(E2, d, indent + 2, in_loop, in_switch, ret, labels))
        out.append(ind + "}")
        return "\n".join(out)

    # ------------------------------------------------------------ functions and file scope
    def function(self):
        r = self.r
        name = self.fresh("fun")
        ret = r.choice(["int", "int", "void", "double", "pint", "rec", "int"])
        rt = {"int": r.choice(["int", "long", "unsigned", "short", "char", "_Bool", "enum color", "ulong_t"]), "void": "void",
              "double": r.choice(["double", "float"]), "pint": "int *", "rec": "struct rec"}[ret]
        params = []
        ptxt = []
        style = r.random()
        if style < 0.15:
            ptxt = ["void"]
        else:
            for i in range(r.randrange(1, 4)):
                pn = f"p{self.fresh('')}"
                c = r.random()
                if c < 0.5:
                    params.append(("int", pn))
                    ptxt.append(f"{r.choice(['int', 'long', 'unsigned char', 'const int', 'short', 'register int'])} {pn}")
                    if "const" in ptxt[-1] or "register" in ptxt[-1]:
                        params[-1] = ("ro", pn)
                elif c < 0.65:
                    params.append(("flt", pn))
                    ptxt.append(f"{r.choice(['double', 'float'])} {pn}")
                elif c < 0.8:
                    params.append(("pint", pn))
                    ptxt.append(r.choice([f"int *{pn}", f"int {pn}[]", f"int {pn}[static 2]", f"int *restrict {pn}", f"int {pn}[const]"]))
                    if "[const]" in ptxt[-1]:
                        params[-1] = ("ro", pn)
                elif c < 0.9:
                    params.append(("prec", pn))
                    ptxt.append(f"struct rec *{pn}")
                else:
                    params.append(("rec", pn))
                    ptxt.append(f"struct rec {pn}")
            if r.random() < 0.1 and params:
                ptxt.append("...")
        E = self.new_env([p for p in params if p[0] != "ro"])
        labels = []
        storage = r.choice(["", "", "", "extern "])
        kr = style > 0.93 and all(k in ("int", "flt") for k, _ in params) and params and "..." not in ptxt
        body_items = []
        for _ in range(r.randrange(1, 4)):
            s = self.decl(E, 2, 2)
            if s:
                body_items.append(s)
        for _ in range(r.randrange(2, 7)):
            body_items.append(self.stmt(E, r.choice([1, 2, 3]), 2, False, False, ret, labels))
        if labels and r.random() < 0.8:
            body_items.insert(r.randrange(len(body_items)), f"  if (gi) goto {r.choice(labels)};")
        if ret != "void":
            body_items.append(self.stmt(E, 0, 2, False, False, ret, labels) if False else
                              {"int": "  return 0;", "double": "  return 1.0;", "pint": "  return garr;", "rec": "  return grec;"}[ret])
        if kr:
            head = f"{storage}{rt} {name}({', '.join(n for _, n in params)})\n" + "".join(
                f"  {'int' if k == 'int' else 'double'} {n};\n" for k, n in params)
        else:
            head = f"{storage}{rt} {name}({', '.join(ptxt)})\n"
        return head + "{\n" + "\n".join(body_items) + "\n}\n"

    def restrict_kernel(self):
        """A function whose code at -O1 depends on the restrict / static qualifiers written inside array-parameter brackets
        (or after the '*'): store through one parameter, re-read through the other."""
        r = self.r
        nm = self.fresh("rk")
        d = r.choice(["int d[restrict]", "int d[restrict static 2]", "int *restrict d", "int d[const restrict]", "int d[restrict 4]",
                      "int d[static restrict 2]", "int (*restrict d)", "int d[]"])
        s_ = r.choice(["const int s[restrict]", "const int *restrict s", "const int s[restrict static 1]", "const int s[const restrict]",
                       "int const s[restrict 3]", "const int s[]"])
        e1 = r.choice(["s[0] + n", "n - s[0]", "s[0] * 2", "s[0] | n"])
        e2 = r.choice(["s[0] - n", "s[0] ^ 1", "s[0] + d[0]", "n + s[0] * 3"])
        return f"int {nm}({d}, {s_}, int n)\n{{\n  d[0] = {e1};\n  d[1] = {e2};\n  return s[0];\n}}\n"

    def bare_chain(self, E):
        """Binary operators of different precedence levels next to each other without any parentheses."""
        r = self.r
        atoms = [self.int_lvalue(E, 0) if r.random() < 0.7 else str(r.randrange(1, 9)) for _ in range(r.randrange(3, 6))]
        levels = [["||"], ["&&"], ["|"], ["^"], ["&"], ["==", "!="], ["<", ">", "<=", ">="], ["<<", ">>"], ["+", "-"], ["*"]]
        i = r.randrange(len(levels) - 1)
        near = levels[i] + levels[i + 1]          # two neighbouring precedence levels: the pairs a wrong table entry confuses
        ops = [o for lv in levels for o in lv]
        out = atoms[0]
        for a in atoms[1:]:
            op = r.choice(near) if r.random() < 0.7 else r.choice(ops)
            if op in ("<<", ">>"):
                a = str(r.randrange(0, 4))
            out += f" {op} {a}"
        return out

    def file_decl(self):
        r = self.r
        nm = self.fresh("g")
        c = r.random()
        if c < 0.2:
            return f"{r.choice(['', 'static ', 'const ', 'volatile '])}{r.choice(INT_TYPES)} {nm} = {self.cexpr(2)};"
        if c < 0.3:
            return f"{r.choice(FLT_TYPES)} {nm} = {self.fconst()};"
        if c < 0.4:
            return f"int {nm}[] = {{ {', '.join(self.cexpr(1) for _ in range(r.randrange(1, 5)))} }};"
        if c < 0.5:
            return f"int {nm}[2][3] = {{ {{ 1, 2, 3 }}, {{ [1] = {self.cexpr(1)} }} }};"
        if c < 0.6:
            return f"struct rec {nm} = {{ .a = {self.cexpr(1)}, .name = \"n\", .pt = {{ 1, 2 }}, .arr = {{ [2] = 7 }}, .fn = fn1 }};"
        if c < 0.66:
            return f"struct point {nm}[2] = {{ [1].x = {self.cexpr(1)}, [0] = {{ .y = 2 }} }};"
        if c < 0.72:
            return f"static const char {nm}[] = {r.choice(['\"text\" \"more\"'] + self.ADJ_STRS)}; const char *const {nm}_p = {nm}; const unsigned {nm}_w = sizeof(L\"ab\" L\"\" L\"c\");"
        if c < 0.78:
            return f"int (*{nm})(int) = fn1; fn_t {nm}_t[2] = {{ fn1, 0 }};"
        if c < 0.84:
            return f"enum {nm}_e {{ {nm}_A = {self.cexpr(1)}, {nm}_B, {nm}_C = {nm}_B + 2{r.choice(['', ','])} }}; enum {nm}_e {nm} = {nm}_B;"
        if c < 0.88:
            return f"typedef struct {nm}_s {{ int k; struct {nm}_s *link; }} {nm}_t; {nm}_t *{nm};"
        if c < 0.92:
            return f"extern int {nm}(int, char **); int (*{nm}_tab[3])(int, char **);"
        if c < 0.95:
            return f"const int *{nm} = &gi; int *const {nm}_c = &gi; const int *const {nm}_cc = garr + 1;"
        if self.c11:
            self.used_c11 = True
            return r.choice([f"_Alignas(int) char {nm}[4];", f"_Static_assert({self.cexpr(1)} >= 0, \"nonneg\");",
                             f"_Atomic(long) {nm}; _Atomic unsigned {nm}_u = 3;", f"_Thread_local int {nm} = 1; static _Thread_local int {nm}_s;",
                             f"struct anon11 {nm} = {{ 1, {{ .af = 1.5f }}, {{ 1, 2 }} }};",
                             f"const unsigned short *{nm} = u\"x\"; const unsigned *{nm}_U = U\"y\"; const char *{nm}_8 = u8\"z\";"])
        return f"long long {nm} = (long long){self.cexpr(2)} + 1LL;"

    def program(self, nfun=8, ndecl=6):
        parts = [PRELUDE_C99]
        if self.c11:
            parts.append(PRELUDE_C11)
        parts.append("int gi; double gd; int garr[6]; struct rec grec; char gbuf[16]; fn_t gfn;\n")
        items = []
        for _ in range(ndecl):
            items.append(self.file_decl())
        for _ in range(nfun):
            items.append(self.function())
        items.append(self.restrict_kernel())
        self.r.shuffle(items)
        parts += items
        return "\n".join(parts) + "\n"


def generate(seed, c11=False, nfun=8, ndecl=6):
    rnd = random.Random(seed)
    g = Sem(rnd, c11=c11)
    text = g.program(nfun, ndecl)
    return text, ("c11" if c11 else "c99")
