"""Lock-step matcher: walks a pycparser AST and the model it was generated from,
reports every disagreement (path, expected, observed) and records the pairing
(AST node, model node) so that coordinate checks know each node's token span.

The AST is *read as C* (semantic projection): type chains are walked to collect
pointer/array/function derivations down to the TypeDecl; pycparser's own
redundancies (Decl.name == TypeDecl.declname, Decl.quals mirror) are recorded as
diagnostics only."""


class Matcher:
    def __init__(self, S):
        self.S = S
        self.A = S.c_ast
        self.bad = []          # (path, expected, observed)
        self.pairs = []        # (ast_node, model_node, role)
        self.diag = []         # non-verdict observations
        self.stats = {}
        self.kf = {}           # known-finding id -> cases attributed (trigger + signature + twin shape)

    # ------------------------------------------------------------ utilities
    def fail(self, path, exp, obs):
        if len(self.bad) < 20:
            self.bad.append((path, _short(exp), _short(obs)))

    def pair(self, a, m, role="node"):
        self.pairs.append((a, m, role))
        self.stats[type(a).__name__] = self.stats.get(type(a).__name__, 0) + 1

    def cls(self, a, name, path):
        if type(a).__name__ != name:
            self.fail(path, name, type(a).__name__ if a is not None else None)
            return False
        return True

    # ------------------------------------------------------------ expressions
    def expr(self, a, m, path="e"):
        k = m.k
        A = self.A
        if a is None:
            self.fail(path, k, None)
            return
        self.pair(a, m)
        if k == "id":
            if self.cls(a, "ID", path) and a.name != m["name"]:
                self.fail(path + ".name", m["name"], a.name)
        elif k == "const":
            if self.cls(a, "Constant", path):
                if a.value != m["text"]:
                    self.fail(path + ".value", m["text"], a.value)
                if a.type != m["ctype"]:
                    self.fail(path + ".type", m["ctype"], a.type)
        elif k == "str":
            if self.cls(a, "Constant", path):
                exp = concat_strings(m["parts"])
                if a.value != exp:
                    self.fail(path + ".value", exp, a.value)
                if a.type != "string":
                    self.fail(path + ".type", "string", a.type)
        elif k == "bin":
            if self.cls(a, "BinaryOp", path):
                if a.op != m["op"]:
                    self.fail(path + ".op", m["op"], a.op)
                self.expr(a.left, m["l"], path + ".l")
                self.expr(a.right, m["r"], path + ".r")
        elif k == "asg":
            if self.cls(a, "Assignment", path):
                if a.op != m["op"]:
                    self.fail(path + ".op", m["op"], a.op)
                self.expr(a.lvalue, m["l"], path + ".l")
                self.expr(a.rvalue, m["r"], path + ".r")
        elif k == "cond":
            if self.cls(a, "TernaryOp", path):
                self.expr(a.cond, m["c"], path + ".c")
                self.expr(a.iftrue, m["t"], path + ".t")
                self.expr(a.iffalse, m["e"], path + ".e")
        elif k == "comma":
            if self.cls(a, "ExprList", path):
                self.exprs(a.exprs, m["items"], path + ".items")
        elif k == "pre":
            if self.cls(a, "UnaryOp", path):
                if a.op != m["op"]:
                    self.fail(path + ".op", m["op"], a.op)
                self.expr(a.expr, m["e"], path + ".e")
        elif k == "post":
            if self.cls(a, "UnaryOp", path):
                if a.op != "p" + m["op"]:
                    self.fail(path + ".op", "p" + m["op"], a.op)
                self.expr(a.expr, m["e"], path + ".e")
        elif k in ("szt", "alt"):
            if self.cls(a, "UnaryOp", path):
                want = "sizeof" if k == "szt" else "_Alignof"
                if a.op != want:
                    self.fail(path + ".op", want, a.op)
                self.typename(a.expr, m["tn"], path + ".tn")
        elif k == "cast":
            if self.cls(a, "Cast", path):
                self.typename(a.to_type, m["tn"], path + ".tn")
                self.expr(a.expr, m["e"], path + ".e")
        elif k == "idx":
            if self.cls(a, "ArrayRef", path):
                self.expr(a.name, m["a"], path + ".a")
                self.expr(a.subscript, m["i"], path + ".i")
        elif k == "call":
            if self.cls(a, "FuncCall", path):
                self.expr(a.name, m["fn"], path + ".fn")
                if not m["args"]:
                    if a.args is not None:
                        self.fail(path + ".args", None, type(a.args).__name__)
                elif self.cls(a.args, "ExprList", path + ".args"):
                    self.exprs(a.args.exprs, m["args"], path + ".args")
        elif k == "mem":
            if self.cls(a, "StructRef", path):
                if a.type != m["op"]:
                    self.fail(path + ".op", m["op"], a.type)
                self.expr(a.name, m["e"], path + ".e")
                if type(a.field).__name__ != "ID" or a.field.name != m["name"]:
                    self.fail(path + ".field", m["name"], getattr(a.field, "name", None))
        elif k == "clit":
            if self.cls(a, "CompoundLiteral", path):
                self.typename(a.type, m["tn"], path + ".tn")
                self.init(a.init, m["init"], path + ".init")
        elif k == "off":
            if self.cls(a, "FuncCall", path):
                if type(a.name).__name__ != "ID" or a.name.name != "offsetof":
                    self.fail(path + ".fn", "offsetof", getattr(a.name, "name", None))
                if self.cls(a.args, "ExprList", path + ".args") and len(a.args.exprs) == 2:
                    self.typename(a.args.exprs[0], m["tn"], path + ".tn")
                    self.offpath(a.args.exprs[1], m["path"], path + ".path")
                else:
                    self.fail(path + ".args", 2, None)
        else:
            raise ValueError(k)

    def exprs(self, alist, mlist, path):
        if alist is None or len(alist) != len(mlist):
            self.fail(path + ".len", len(mlist), None if alist is None else len(alist))
            return
        for i, (a, m) in enumerate(zip(alist, mlist)):
            self.expr(a, m, f"{path}[{i}]")

    def offpath(self, a, mpath, path):
        # member designator: left-nested StructRef/ArrayRef over IDs
        cur = a
        for d in reversed(mpath[1:]):
            if d[0] == ".":
                if type(cur).__name__ != "StructRef" or cur.type != "." or cur.field.name != d[1]:
                    self.fail(path, d, type(cur).__name__)
                    return
                cur = cur.name
            else:
                if type(cur).__name__ != "ArrayRef":
                    self.fail(path, "ArrayRef", type(cur).__name__)
                    return
                self.expr(cur.subscript, d[1], path + ".sub")
                cur = cur.name
        if type(cur).__name__ != "ID" or cur.name != mpath[0][1]:
            self.fail(path + ".base", mpath[0][1], getattr(cur, "name", None))

    # ------------------------------------------------------------ initializers
    def init(self, a, m, path):
        if m.k != "ilist":
            self.expr(a, m, path)
            return
        if not self.cls(a, "InitList", path):
            return
        self.pair(a, m)
        if len(a.exprs) != len(m["items"]):
            self.fail(path + ".len", len(m["items"]), len(a.exprs))
            return
        for i, (x, it) in enumerate(zip(a.exprs, m["items"])):
            p = f"{path}[{i}]"
            if it["desig"]:
                if not self.cls(x, "NamedInitializer", p):
                    continue
                self.pair(x, it)
                if len(x.name) != len(it["desig"]):
                    self.fail(p + ".desig.len", len(it["desig"]), len(x.name))
                    continue
                for j, (dn, d) in enumerate(zip(x.name, it["desig"])):
                    if d[0] == ".":
                        if type(dn).__name__ != "ID" or dn.name != d[1]:
                            self.fail(f"{p}.desig[{j}]", d[1], getattr(dn, "name", type(dn).__name__))
                    else:
                        self.expr(dn, d[1], f"{p}.desig[{j}]")
                self.init(x.expr, it["init"], p + ".init")
            else:
                if type(x).__name__ == "NamedInitializer":
                    self.fail(p, "plain initializer", "NamedInitializer")
                    continue
                self.init(x, it["init"], p)

    # ------------------------------------------------------------ types
    def read_chain(self, t, path):
        """Walk a type chain; returns (derivs, typedecl) with derivs as
        [('ptr', node) | ('arr', node) | ('fn', node)] outermost-first."""
        out = []
        n = 0
        while t is not None and type(t).__name__ in ("PtrDecl", "ArrayDecl", "FuncDecl"):
            out.append(({"PtrDecl": "ptr", "ArrayDecl": "arr", "FuncDecl": "fn"}[type(t).__name__], t))
            t = t.type
            n += 1
            if n > 10000:
                break
        return out, t

    def chain(self, t, specs, d, path, owner=None, name_expected=True):
        """Match type chain `t` against model dtor `d` + specs (base).  `owner` is the model node of
        the whole declaration / parameter / type name (its span is the construct for derivation nodes)."""
        span_node = owner if owner is not None else d
        while specs["ts"].k == "atomic":
            specs, d = expand_atomic(specs, d)
        derivs, td = self.read_chain(t, path)
        md = d["derivs"]
        if [x[0] for x in derivs] != [x[0] for x in md]:
            self.fail(path + ".derivations", [x[0] for x in md], [x[0] for x in derivs])
            return
        for i, ((kind, node), mdv) in enumerate(zip(derivs, md)):
            p = f"{path}.deriv[{i}]"
            self.pair(node, span_node, "deriv")
            if kind == "ptr":
                if set(node.quals or []) != set(mdv[1]):
                    self.fail(p + ".quals", mdv[1], node.quals)
            elif kind == "arr":
                a = mdv[1]
                exp_q = (["static"] if a.get("static") == "first" else []) + list(a.get("quals", [])) + \
                        (["static"] if a.get("static") == "last" else [])
                if list(node.dim_quals or []) != exp_q:
                    self.fail(p + ".dim_quals", exp_q, node.dim_quals)
                if a.get("size") is None:
                    if node.dim is not None:
                        self.fail(p + ".dim", None, type(node.dim).__name__)
                elif a["size"] == "*":
                    if type(node.dim).__name__ != "ID" or node.dim.name != "*":
                        self.fail(p + ".dim", "*", getattr(node.dim, "name", None))
                    elif a.get("star_m") is not None:
                        self.pair(node.dim, a["star_m"])
                else:
                    self.expr(node.dim, a["size"], p + ".dim")
            else:
                f = mdv[1]
                if f.get("kr") is not None:
                    if not f["kr"]:
                        if node.args is not None:
                            self.fail(p + ".args", None, "ParamList")
                    elif self.cls(node.args, "ParamList", p + ".args"):
                        names = [getattr(x, "name", None) for x in node.args.params]
                        if names != f["kr"] or any(type(x).__name__ != "ID" for x in node.args.params):
                            self.fail(p + ".kr", f["kr"], names)
                elif f.get("params") is None:
                    if node.args is not None:
                        self.fail(p + ".args", None, "ParamList")
                elif self.cls(node.args, "ParamList", p + ".args"):
                    params = list(node.args.params)
                    if f.get("variadic"):
                        if not params or type(params[-1]).__name__ != "EllipsisParam":
                            self.fail(p + ".variadic", "...", None)
                        params = params[:-1]
                    if len(params) != len(f["params"]):
                        self.fail(p + ".nparams", len(f["params"]), len(params))
                    else:
                        for j, (pa, pm) in enumerate(zip(params, f["params"])):
                            self.param(pa, pm, f"{p}.param[{j}]")
        if not self.cls(td, "TypeDecl", path + ".base"):
            return
        self.pair(td, d, "typedecl")
        if name_expected and td.declname != d["name"]:
            self.fail(path + ".declname", d["name"], td.declname)
        self.base(td, specs, path + ".base")

    def base(self, td, specs, path):
        ts = specs["ts"]
        exp_quals = list(specs["quals"])
        base = td.type
        if ts.k == "atomic":
            # _Atomic(T) means the _Atomic-qualified T: handled by the caller
            raise ValueError("atomic specifier must be expanded by the generator")
        if set(td.quals or []) != set(exp_quals):  # duplicates are idempotent (C99 6.7.3p4)
            self.fail(path + ".quals", exp_quals, td.quals)
        if ts.k in ("basic", "tdname"):
            words = ts["words"] if ts.k == "basic" else [ts["name"]]
            if self.cls(base, "IdentifierType", path + ".type"):
                self.pair(base, ts)
                if list(base.names) != list(words):
                    self.fail(path + ".names", words, base.names)
        elif ts.k == "su":
            want = "Struct" if ts["kw"] == "struct" else "Union"
            if self.cls(base, want, path + ".type"):
                self.su(base, ts, path + ".type")
        elif ts.k == "enum":
            if self.cls(base, "Enum", path + ".type"):
                self.enum(base, ts, path + ".type")

    def su(self, a, ts, path):
        self.pair(a, ts)
        if a.name != ts["tag"]:
            self.fail(path + ".tag", ts["tag"], a.name)
        if ts["members"] is None:
            if a.decls is not None:
                self.fail(path + ".decls", None, "list")
            return
        exp = []
        for m in ts["members"]:
            if m.k == "semi":
                continue
            if m.k == "decl":
                exp.extend(("dtor", m, d) for d in m["dtors"]) if m["dtors"] else exp.append(("anon", m, None))
            else:
                exp.append((m.k, m, None))
        got = list(a.decls or [])
        if len(got) != len(exp):
            self.fail(path + ".members.len", len(exp), len(got))
            return
        for i, (g, (kind, m, d)) in enumerate(zip(got, exp)):
            p = f"{path}.member[{i}]"
            if kind == "dtor":
                self.decl_one(g, m["specs"], d, p, "Decl", owner=m)
            elif kind == "anon":
                if self.cls(g, "Decl", p):
                    self.pair(g, m)
                    if g.name is not None:
                        self.fail(p + ".name", None, g.name)
                    self.anon_type(g.type, m["specs"], p)
            elif kind == "pragma":
                self.pragma(g, m, p)
            elif kind == "sassert":
                self.sassert(g, m, p)

    def anon_type(self, t, specs, path):
        ts = specs["ts"]
        if ts.k == "su":
            want = "Struct" if ts["kw"] == "struct" else "Union"
            if self.cls(t, want, path + ".type"):
                self.su(t, ts, path + ".type")
        elif ts.k == "enum":
            if self.cls(t, "Enum", path + ".type"):
                self.enum(t, ts, path + ".type")
        else:
            self.fail(path + ".type", ts.k, type(t).__name__)

    def enum(self, a, ts, path):
        self.pair(a, ts)
        if a.name != ts["tag"]:
            self.fail(path + ".tag", ts["tag"], a.name)
        if ts["items"] is None:
            if a.values is not None:
                self.fail(path + ".values", None, "EnumeratorList")
            return
        if not self.cls(a.values, "EnumeratorList", path + ".values"):
            return
        got = a.values.enumerators
        if len(got) != len(ts["items"]):
            self.fail(path + ".values.len", len(ts["items"]), len(got))
            return
        for i, (g, it) in enumerate(zip(got, ts["items"])):
            p = f"{path}.enumerator[{i}]"
            if self.cls(g, "Enumerator", p):
                self.pair(g, it)
                if g.name != it["name"]:
                    self.fail(p + ".name", it["name"], g.name)
                if it["value"] is None:
                    if g.value is not None:
                        self.fail(p + ".value", None, type(g.value).__name__)
                else:
                    self.expr(g.value, it["value"], p + ".value")

    def typename(self, a, tn, path):
        if not self.cls(a, "Typename", path):
            return
        self.pair(a, tn)
        if a.name is not None:
            self.fail(path + ".name", None, a.name)
        self.chain(a.type, tn["specs"], tn["dtor"], path, owner=tn)

    def param(self, a, pm, path):
        d = pm["dtor"]
        if d["name"] is None:
            if not self.cls(a, "Typename", path):
                return
            self.pair(a, pm)
            self.chain(a.type, pm["specs"], d, path, owner=pm)
        else:
            self.decl_one(a, pm["specs"], d, path, "Decl", owner=pm)

    def decl_one(self, a, specs, d, path, want, owner=None):
        """One declared entity: Decl / Typedef node `a` against specs + dtor."""
        if "typedef" in specs["storage"]:
            want = "Typedef"
        if not self.cls(a, want, path):
            return
        self.pair(a, owner if owner is not None else d, "decl")
        if a.name != d["name"]:
            self.fail(path + ".name", d["name"], a.name)
        if list(a.storage or []) != in_order(specs, "storage"):
            self.fail(path + ".storage", in_order(specs, "storage"), a.storage)
        if want == "Decl":
            if list(a.funcspec or []) != in_order(specs, "funcspec"):
                self.fail(path + ".funcspec", in_order(specs, "funcspec"), a.funcspec)
            al = list(a.align or [])
            if len(al) != len(specs["align"]):
                self.fail(path + ".align.len", len(specs["align"]), len(al))
            else:
                for i, (x, ma) in enumerate(zip(al, in_order(specs, "align"))):
                    if self.cls(x, "Alignas", f"{path}.align[{i}]"):
                        self.pair(x, ma)
                        if ma.get("tn") is not None:
                            self.typename(x.alignment, ma["tn"], f"{path}.align[{i}]")
                        else:
                            self.expr(x.alignment, ma["e"], f"{path}.align[{i}]")
            if d.get("bits") is None:
                if a.bitsize is not None:
                    self.fail(path + ".bitsize", None, type(a.bitsize).__name__)
            else:
                self.expr(a.bitsize, d["bits"], path + ".bitsize")
            if d.get("init") is None:
                if a.init is not None:
                    self.fail(path + ".init", None, type(a.init).__name__)
            else:
                self.init(a.init, d["init"], path + ".init")
            # diagnostic: Decl.quals mirrors the base qualifiers
            if not d["derivs"] or True:
                if set(a.quals or []) != set(specs["quals"]):
                    self.diag.append((path + ".quals-mirror", specs["quals"], list(a.quals or [])))
        self.chain(a.type, specs, d, path, owner=owner)

    def decl(self, nodes, m, path, want="Decl"):
        """A declaration with n declarators -> n consecutive AST nodes (or one
        for a bare struct/union/enum specifier).  Returns number consumed."""
        if not m["dtors"]:
            if not nodes:
                self.fail(path, "Decl", None)
                return 1
            a = nodes[0]
            if self.cls(a, "Decl", path):
                self.pair(a, m)
                if a.name is not None:
                    self.fail(path + ".name", None, a.name)
                if list(a.storage or []) != in_order(m["specs"], "storage"):
                    self.fail(path + ".storage", in_order(m["specs"], "storage"), a.storage)
                self.anon_type(a.type, m["specs"], path)
            return 1
        n = len(m["dtors"])
        if len(nodes) < n:
            self.fail(path + ".declarators", n, len(nodes))
            return n
        for i, d in enumerate(m["dtors"]):
            self.decl_one(nodes[i], m["specs"], d, f"{path}.dtor[{i}]", want, owner=m)
        return n

    # ------------------------------------------------------------ statements
    def pragma(self, a, m, path):
        if self.cls(a, "Pragma", path):
            self.pair(a, m)
            if m.k == "pragma":
                if a.string != m["text"]:
                    self.fail(path + ".string", m["text"], a.string)
            else:
                s = a.string
                if type(s).__name__ != "Constant" or s.value != m["lit"]:
                    self.fail(path + ".string", m["lit"], getattr(s, "value", s))

    def sassert(self, a, m, path):
        if self.cls(a, "StaticAssert", path):
            self.pair(a, m)
            self.expr(a.cond, m["cond"], path + ".cond")
            if m.get("msg") is None:
                if a.message is not None:
                    self.fail(path + ".message", None, "Constant")
            elif type(a.message).__name__ != "Constant" or a.message.value != concat_strings(m["msg"]):
                self.fail(path + ".message", concat_strings(m["msg"]), getattr(a.message, "value", None))

    def expected_items(self, items):
        """Flatten model block items into the expected sequence of AST items
        (a declaration gives one node per declarator; a block-scope static
        assertion is followed by the EmptyStatement of its ';' - pinned by the
        test-suite; pragmas before a block item are separate items)."""
        out = []
        for it in items:
            if it.k == "decl":
                if it["dtors"]:
                    out.extend(("decl1", it, d) for d in it["dtors"])
                else:
                    out.append(("declanon", it, None))
            elif it.k == "sassert":
                out.append(("sassert", it, None))
                out.append(("sassert-semi", it, None))
            elif it.k == "prag":
                for p in it["pragmas"]:
                    out.append(("stmt", p, None))
                out.extend(self.expected_items([it["stmt"]]))
            else:
                out.append(("stmt", it, None))
        return out

    def items(self, alist, items, path):
        exp = self.expected_items(items)
        got = list(alist or [])
        if len(got) != len(exp):
            self.fail(path + ".len", [e[1].k for e in exp], [type(g).__name__ for g in got])
            return
        for i, (g, (kind, m, d)) in enumerate(zip(got, exp)):
            self.item(g, kind, m, d, f"{path}[{i}]")

    def item(self, g, kind, m, d, p):
        if kind == "decl1":
            self.decl_one(g, m["specs"], d, p, "Decl", owner=m)
        elif kind == "declanon":
            self.decl([g], m, p)
        elif kind == "sassert":
            self.sassert(g, m, p)
        elif kind == "sassert-semi":
            self.cls(g, "EmptyStatement", p)
            self.pair(g, m, "sassert-semi")
        else:
            self.stmt(g, m, p)

    def sub(self, a, m, path):
        """A sub-statement position (body of if/loop/label...): pragmas directly
        before it wrap it into a Compound."""
        if m.k == "prag":
            pragmas, inner = flatten_prag(m)
            if self.cls(a, "Compound", path):
                got = list(a.block_items or [])
                # the sub-statement itself is always exactly one statement
                if len(got) != len(pragmas) + 1:
                    self.fail(path + ".len", len(pragmas) + 1, len(got))
                    return
                self.pair(a, m, "pragma-wrap")
                for i, p in enumerate(pragmas):
                    self.stmt(got[i], p, f"{path}[{i}]")
                self.stmt(got[-1], inner, f"{path}[{len(got)-1}]")
            return
        self.stmt(a, m, path)

    def stmt(self, a, m, path):
        k = m.k
        if a is None:
            self.fail(path, k, None)
            return
        if k == "expr":
            self.expr(a, m["e"], path)
            return
        if k in ("pragma", "pragmaop"):
            self.pragma(a, m, path)
            return
        if k == "sassert":
            self.sassert(a, m, path)
            return
        want = {"empty": "EmptyStatement", "block": "Compound", "if": "If", "while": "While", "do": "DoWhile",
                "for": "For", "switch": "Switch", "case": "Case", "default": "Default", "label": "Label",
                "goto": "Goto", "break": "Break", "continue": "Continue", "return": "Return"}.get(k)
        if want is None:
            raise ValueError(k)
        if not self.cls(a, want, path):
            return
        self.pair(a, m)
        if k == "block":
            self.items(a.block_items, m["items"], path + ".items")
        elif k == "if":
            self.expr(a.cond, m["c"], path + ".cond")
            self.sub(a.iftrue, m["then"], path + ".then")
            if m["els"] is None:
                if a.iffalse is not None:
                    self.fail(path + ".else", None, type(a.iffalse).__name__)
            else:
                self.sub(a.iffalse, m["els"], path + ".else")
        elif k == "while":
            self.expr(a.cond, m["c"], path + ".cond")
            self.sub(a.stmt, m["body"], path + ".body")
        elif k == "do":
            self.expr(a.cond, m["c"], path + ".cond")
            self.sub(a.stmt, m["body"], path + ".body")
        elif k == "for":
            mi = m["init"]
            if mi is None:
                if a.init is not None:
                    self.fail(path + ".init", None, type(a.init).__name__)
            elif mi.k == "decl":
                if self.cls(a.init, "DeclList", path + ".init"):
                    # DeclList takes the coordinate of the 'for' token (pinned by test_forloop_coord):
                    # its construct is the for statement
                    self.pair(a.init, m, "declist")
                    n = self.decl(list(a.init.decls), mi, path + ".init")
                    if len(a.init.decls) != n:
                        self.fail(path + ".init.len", n, len(a.init.decls))
            else:
                self.expr(a.init, mi, path + ".init")
            for fld, key in (("cond", "c"), ("next", "next")):
                if m[key] is None:
                    if getattr(a, fld) is not None:
                        self.fail(f"{path}.{fld}", None, type(getattr(a, fld)).__name__)
                else:
                    self.expr(getattr(a, fld), m[key], f"{path}.{fld}")
            self.sub(a.stmt, m["body"], path + ".body")
        elif k == "switch":
            self.expr(a.cond, m["c"], path + ".cond")
            body = m["body"]
            if body.k == "prag":
                from .model import M as _M
                pr, inner = flatten_prag(body)
                nb = _M("prag", pragmas=pr, stmt=inner)
                nb.first, nb.last, nb.tok = body.first, body.last, body.tok
                body = nb
            if body.k == "block":
                if self.cls(a.stmt, "Compound", path + ".body"):
                    self.pair(a.stmt, body)
                    self.switch_items(a.stmt.block_items, body["items"], path + ".body")
            elif body.k == "prag" and body["stmt"].k == "block":
                # '#pragma' lines before the switch block must not otherwise change the tree:
                # the block is still the switch block and is regrouped.
                m1 = Matcher(self.S)
                m1._switch_prag(a.stmt, body, path + ".body", regroup=True)
                if m1.bad:
                    # K31: today the pragma-wrapped block is left ungrouped.  Attributed only if the
                    # tree equals the ungrouped reading exactly (signature) - the twin without the
                    # pragma is the plain 'block' branch above, checked on every other case.
                    m2 = Matcher(self.S)
                    m2._switch_prag(a.stmt, body, path + ".body", regroup=False)
                    if not m2.bad and _has_grouping_effect(body["stmt"]):
                        self.kf["K31"] = self.kf.get("K31", 0) + 1
                        m1 = m2
                self.bad.extend(m1.bad)
                self.pairs.extend(m1.pairs)
                for k2, v2 in m1.kf.items():
                    self.kf[k2] = self.kf.get(k2, 0) + v2
            elif body.k == "prag":
                # pragma-prefixed non-block body: by the property it is simply wrapped
                m1 = Matcher(self.S)
                m1.sub(a.stmt, body, path + ".body")
                if m1.bad:
                    # K31, other direction: the wrapper Compound is regrouped as if it were the switch block
                    m2 = Matcher(self.S)
                    if type(a.stmt).__name__ == "Compound":
                        m2.pair(a.stmt, body, "pragma-wrap")
                        m2.switch_items(a.stmt.block_items, list(body["pragmas"]) + [body["stmt"]], path + ".body")
                        if not m2.bad:
                            self.kf["K31"] = self.kf.get("K31", 0) + 1
                            m1 = m2
                self.bad.extend(m1.bad)
                self.pairs.extend(m1.pairs)
                for k2, v2 in m1.kf.items():
                    self.kf[k2] = self.kf.get(k2, 0) + v2
            else:
                self.sub(a.stmt, body, path + ".body")
        elif k == "case":
            self.expr(a.expr, m["e"], path + ".expr")
            if len(a.stmts or []) != 1:
                self.fail(path + ".stmts.len", 1, len(a.stmts or []))
            else:
                self.sub(a.stmts[0], m["stmt"], path + ".stmt")
        elif k == "default":
            if len(a.stmts or []) != 1:
                self.fail(path + ".stmts.len", 1, len(a.stmts or []))
            else:
                self.sub(a.stmts[0], m["stmt"], path + ".stmt")
        elif k == "label":
            if a.name != m["name"]:
                self.fail(path + ".name", m["name"], a.name)
            self.sub(a.stmt, m["stmt"], path + ".stmt")
        elif k == "goto":
            if a.name != m["name"]:
                self.fail(path + ".name", m["name"], a.name)
        elif k == "return":
            if m["e"] is None:
                if a.expr is not None:
                    self.fail(path + ".expr", None, type(a.expr).__name__)
            else:
                self.expr(a.expr, m["e"], path + ".expr")

    def _switch_prag(self, a, body, path, regroup):
        if not self.cls(a, "Compound", path):
            return
        got = list(a.block_items or [])
        if len(got) != len(body["pragmas"]) + 1:
            self.fail(path + ".len", len(body["pragmas"]) + 1, len(got))
            return
        self.pair(a, body, "pragma-wrap")
        for i, p in enumerate(body["pragmas"]):
            self.stmt(got[i], p, f"{path}[{i}]")
        inner = got[-1]
        blk = body["stmt"]
        if regroup:
            if self.cls(inner, "Compound", path + ".block"):
                self.pair(inner, blk)
                self.switch_items(inner.block_items, blk["items"], path + ".block")
        else:
            self.stmt(inner, blk, path + ".block")

    def switch_items(self, alist, items, path):
        """Inside a switch *block*: every block item ends up under the nearest
        preceding case/default in source order; directly nested case/default
        chains are flattened to siblings."""
        flat = self.expected_items(items)
        groups = []  # list of [label_model|None, [entries]]
        for ent in flat:
            kind, m, d = ent
            if kind == "stmt" and m.k in ("case", "default"):
                # flatten the chain case A: case B: stmt
                cur = m
                while True:
                    groups.append([cur, []])
                    inner = cur["stmt"]
                    if inner.k in ("case", "default"):
                        cur = inner
                        continue
                    groups[-1][1].append(("sub", inner, None))
                    break
            elif not groups:
                groups.append([None, [ent]])
            elif groups[-1][0] is None:
                groups[-1][1].append(ent)
            else:
                groups[-1][1].append(ent)
        exp_top = []
        for lab, ents in groups:
            if lab is None:
                exp_top.extend(ents)
            else:
                exp_top.append(("label", lab, ents))
        got = list(alist or [])
        if len(got) != len(exp_top):
            self.fail(path + ".len", [e[1].k if e[1] is not None else None for e in exp_top], [type(g).__name__ for g in got])
            return
        for i, (g, e) in enumerate(zip(got, exp_top)):
            p = f"{path}[{i}]"
            if e[0] != "label":
                self.item(g, e[0], e[1], e[2], p)
                continue
            lab, ents = e[1], e[2]
            want = "Case" if lab.k == "case" else "Default"
            if not self.cls(g, want, p):
                continue
            self.pair(g, lab)
            if lab.k == "case":
                self.expr(g.expr, lab["e"], p + ".expr")
            stmts = list(g.stmts or [])
            if len(stmts) != len(ents):
                self.fail(p + ".stmts.len", [x[1].k for x in ents], [type(s).__name__ for s in stmts])
                continue
            for j, (s, ent) in enumerate(zip(stmts, ents)):
                if ent[0] == "sub":
                    self.sub(s, ent[1], f"{p}.stmts[{j}]")
                else:
                    self.item(s, ent[0], ent[1], ent[2], f"{p}.stmts[{j}]")

    # ------------------------------------------------------------ translation unit
    def tu(self, ast, m):
        if not self.cls(ast, "FileAST", "root"):
            return
        ext = list(ast.ext)
        i = 0
        for j, it in enumerate(m["items"]):
            p = f"ext[{j}]"
            if it.k == "semi":
                continue
            if it.k == "funcdef":
                if i >= len(ext):
                    self.fail(p, "FuncDef", None)
                    return
                self.funcdef(ext[i], it, p)
                i += 1
            elif it.k == "decl":
                n = self.decl(ext[i:], it, p)
                i += n
            elif it.k in ("pragma", "pragmaop"):
                if i >= len(ext):
                    self.fail(p, "Pragma", None)
                    return
                self.pragma(ext[i], it, p)
                i += 1
            elif it.k == "sassert":
                if i >= len(ext):
                    self.fail(p, "StaticAssert", None)
                    return
                self.sassert(ext[i], it, p)
                i += 1
            else:
                raise ValueError(it.k)
        if i != len(ext):
            self.fail("root.ext.len", i, len(ext))

    def funcdef(self, a, m, path):
        if not self.cls(a, "FuncDef", path):
            return
        self.pair(a, m)
        self.decl_one(a.decl, m["specs"], m["dtor"], path + ".decl", "Decl", owner=m)
        kr = m.get("krdecls")
        if not kr:
            if a.param_decls:
                self.fail(path + ".param_decls", None, len(a.param_decls))
        else:
            exp = [(d, dt) for d in kr for dt in d["dtors"]]
            got = list(a.param_decls or [])
            if len(got) != len(exp):
                self.fail(path + ".param_decls.len", len(exp), len(got))
            else:
                for i, (g, (d, dt)) in enumerate(zip(got, exp)):
                    self.decl_one(g, d["specs"], dt, f"{path}.param_decls[{i}]", "Decl", owner=d)
        self.stmt(a.body, m["body"], path + ".body")


def flatten_prag(m):
    """pragmas directly before a sub-statement, through nested 'prag' model nodes."""
    pragmas = []
    while m.k == "prag":
        pragmas.extend(m["pragmas"])
        m = m["stmt"]
    return pragmas, m


def _has_grouping_effect(block):
    """Does regrouping change anything for this switch block (a case/default item
    followed by another item, or directly nested labels)?"""
    items = block["items"]
    for i, it in enumerate(items):
        x = it["stmt"] if it.k == "prag" else it
        if x.k in ("case", "default"):
            if i + 1 < len(items) or x["stmt"].k in ("case", "default"):
                return True
    return False


def in_order(specs, kind):
    """Specifiers of one kind in the order they were written (source order)."""
    if not specs["order"]:
        return list(specs[kind])
    key = {"storage": "storage", "funcspec": "funcspec", "align": "align"}[kind]
    return [specs[key][i] for k, i in specs["order"] if k == kind]


def expand_atomic(specs, d):
    """'_Atomic(T)' means the _Atomic-qualified T (C11 6.7.2.4): rewrite
    (specs with an atomic type specifier, declarator) into the equivalent
    (specs of T, declarator followed by T's derivations) with _Atomic - and any
    qualifier written beside the specifier - on the outermost level of T."""
    from .model import M
    tn = specs["ts"]["tn"]
    inner_specs, inner_d = tn["specs"], tn["dtor"]
    extra = list(specs["quals"]) + ["_Atomic"]
    if inner_d["derivs"]:
        first = inner_d["derivs"][0]
        assert first[0] == "ptr", "only pointer derivations can be atomic-qualified"
        derivs = list(d["derivs"]) + [("ptr", list(first[1]) + extra)] + list(inner_d["derivs"][1:])
        quals = list(inner_specs["quals"])
    else:
        derivs = list(d["derivs"])
        quals = list(inner_specs["quals"]) + extra
    specs2 = M("specs", storage=in_order(specs, "storage"), funcspec=in_order(specs, "funcspec"),
               align=in_order(specs, "align"), quals=quals, ts=inner_specs["ts"], order=[])
    d2 = M("dtor", name=d["name"], derivs=derivs, init=d.get("init"), bits=d.get("bits"))
    d2.first, d2.last, d2.tok = d.first, d.last, d.tok
    return specs2, d2


def concat_strings(parts):
    """Value C gives adjacent string literals, spelled the way pycparser
    documents it: the first literal's prefix and opening quote, all the
    bodies, one closing quote."""
    first = parts[0]
    q = first.index('"')
    body = first[q + 1:-1]
    for p in parts[1:]:
        body += p[p.index('"') + 1:-1]
    return first[:q + 1] + body + '"'


def _short(x, lim=160):
    s = repr(x)
    return s if len(s) <= lim else s[:lim] + "..."
