"""Token-level mutation of accepted programs and raw character noise."""
from ..ref import lex as rlex

VOCAB = (list(rlex.KEYWORDS) + list(rlex.PUNCT) +
         ["x", "y", "T", "foo", "0", "1", "42u", "0x1F", "017", "1.5", "1e3f", "0x1p3",
          "'a'", "'\\n'", "L'a'", "'ab'", "1uu", "10UlU", "0x7fUu", "1lul", "0x", "0b2", "1.2.3", "1e", "'\\q'", "_Atomic", "_Alignas", '"s"', 'L"s"', 'u8"s"', "089", "''", "@", "`", "\\",
          "#", "$", "/*", "//", "'", '"', "#pragma p\n", '# 3 "m.h"\n', "#define X\n"])
BRACKETS = ["(", ")", "[", "]", "{", "}"]


def units(text, filename=""):
    """Token spellings of a program; pragma/linemarker lines are kept as whole
    units (with their newline) because they must stay on a line of their own."""
    out = []
    i = 0
    lines = text.split("\n")
    for ln in lines:
        st = ln.lstrip(" \t")
        if st.startswith("#"):
            out.append(st + "\n")
            continue
        toks, errs = rlex.scan(ln)
        if errs:
            # keep unlexable lines verbatim (never happens for accepted programs)
            out.append(ln)
            continue
        out.extend(t.value for t in toks)
    return out


def join(us):
    parts = []
    for u in us:
        if u.endswith("\n"):
            if parts and not parts[-1].endswith("\n"):
                parts.append("\n")
            parts.append(u)
        else:
            if parts and not parts[-1].endswith("\n"):
                parts.append(" ")
            parts.append(u)
    return "".join(parts)


def mutate(rnd, us, nmut=1):
    """Return (kind, units) after nmut random token-level edits."""
    us = list(us)
    kinds = []
    for _ in range(nmut):
        if not us:
            us = [rnd.choice(VOCAB)]
            kinds.append("insert")
            continue
        k = rnd.choice(["delete", "insert", "replace", "swap", "duplicate", "truncate",
                        "bracket", "delete", "insert", "replace", "splice"])
        i = rnd.randrange(len(us))
        if k == "delete":
            del us[i]
        elif k == "insert":
            us.insert(i, rnd.choice(VOCAB))
        elif k == "replace":
            us[i] = rnd.choice(VOCAB)
        elif k == "swap" and len(us) > 1:
            j = min(len(us) - 1, i + rnd.choice([1, 1, 2, 3]))
            us[i], us[j] = us[j], us[i]
        elif k == "duplicate":
            us.insert(i, us[i])
        elif k == "truncate":
            us = us[:i] if rnd.random() < 0.7 else us[i:]
        elif k == "bracket":
            us.insert(i, rnd.choice(BRACKETS))
        elif k == "splice" and len(us) > 3:
            a = rnd.randrange(len(us))
            b = min(len(us), a + rnd.randrange(1, 6))
            us[i:i] = us[a:b]
        kinds.append(k)
    return "+".join(kinds), us


NOISE_ALPHABET = ("abcxyzTLuU019 \t\n\n;;,,(){}[]<>=+-*/%&|^~!?:.#'\"\\@`$_" + "\r\f\0\x7fé中")


def noise(rnd, maxlen=40):
    n = rnd.randrange(1, maxlen)
    return "".join(rnd.choice(NOISE_ALPHABET) for _ in range(n))
