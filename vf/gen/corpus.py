"""The repository's own C corpus (preprocessed with the fake headers) and a
hand-written zoo of small valid translation units covering every construct."""
import glob
import os
import subprocess

from .. import sut

# Small valid C99/C11 translation units.  Each is accepted by gcc -fsyntax-only
# (checked by C01's gcc stream) and must be accepted by pycparser.
ZOO = [
    "int x;",
    "int x, *p, a[3], f(void);",
    "static const unsigned long int big = 10UL;",
    "extern char *names[];",
    "typedef int T; T x; T *f(T a, T b);",
    "typedef struct S { int a; struct S *next; } S; S *head;",
    "struct P { int x, y; }; struct P origin = { 0, 0 };",
    "struct B { unsigned a : 3; unsigned : 0; signed b : 4; int : 2; };",
    "union U { int i; float f; char c[4]; };",
    "enum E { A, B = 2, C = B + 1, }; enum E e = A;",
    "enum { X1 = 1 << 3, X2 = sizeof(int) };",
    "int (*fp)(int, char *);",
    "int (*fa[4])(void);",
    "int (*(*ff)(int))[3];",
    "void (*signal(int sig, void (*func)(int)))(int);",
    "char *(*(*x3[2])(void))[5];",
    "int f(int a[static 3], int b[const], int c[restrict static 2], int n, int d[*]);",
    "void g(int, ...);",
    "int h(a, b) int a; char *b; { return a + *b; }",
    "main() { return 0; }",
    "int arr[] = { 1, 2, 3, };",
    "int m[2][3] = { { 1, 2, 3 }, { 4, 5, 6 } };",
    "struct P2 { int x; int y[3]; } p2 = { .x = 1, .y = { [0] = 1, [2] = 3 } };",
    "int da[10] = { [1] = 1, [3 + 2] = 5, 6 };",
    "struct N { struct { int a; } in; } nn = { .in.a = 4 };",
    "char s1[] = \"abc\" \"def\"; char c1 = 'a'; char c2 = '\\n'; char c3 = '\\'';",
    "int wc = L'x'; void *ws = L\"wide\" L\"r\"; void *u8s = u8\"x\"; void *us = u\"x\"; void *Us = U\"x\";",
    "double d1 = 1.5, d2 = .5e3, d3 = 1e-2, d4 = 0x1.8p3, d5 = 1.f, d6 = 2.0L;",
    "int i1 = 017, i2 = 0x1F, i3 = 0b101, i4 = 10u, i5 = 10l, i6 = 10ul, i7 = 10ull, i8 = 10LLU, i9 = 'ab';",
    "int f1(void) { int a = 1, b = 2; return a * b + a / b - a % b; }",
    "int f2(int a, int b) { return a << 2 | b >> 1 & 3 ^ 4; }",
    "int f3(int a, int b) { return a < b && b <= a || a > b == (b >= a) != 0; }",
    "int f4(int a, int b, int c) { return a ? b : c ? a : b; }",
    "int f5(int a, int b) { a = b += 1; a -= 1; a *= 2; a /= 2; a %= 2; a <<= 1; a >>= 1; a &= 1; a |= 1; a ^= 1; return a, b; }",
    "int f6(int *p, int a) { return -a + +a - ~a + !a + *p + *&a + ++a + --a + a++ + a--; }",
    "int f7(void) { return sizeof(int) + sizeof(int *) + sizeof 1 + sizeof(1 + 2) + _Alignof(int); }",
    "struct Q { int m; struct Q *n; int arr[2]; }; int f8(struct Q *q, struct Q r) { return q->m + r.m + q->n->arr[1] + r.arr[0]; }",
    "int g9(int, int); int f9(void) { return g9(1, 2) + g9((1, 2), 3); }",
    "int f10(void) { int a = (int)1.5; char *p = (char *)0; void (*q)(void) = (void (*)(void))0; return a + (int)(long)p + (q != 0); }",
    "struct P3 { int x, y; }; void f11(void) { struct P3 p = (struct P3){ 1, 2 }; int *q = (int[]){ 1, 2, 3 }; (void)p; (void)q; }",
    "struct O { int a; struct { int b[3]; } s; }; int f12(void) { return offsetof(struct O, a) + offsetof(struct O, s.b[1]); }",
    "void f13(int a) { if (a) a = 1; if (a) a = 2; else a = 3; if (a) if (a > 1) a = 4; else a = 5; }",
    "void f14(int a) { while (a) a--; do a++; while (a < 10); do { a--; } while (a); }",
    "void f15(int n) { int i; for (i = 0; i < n; i++) ; for (;;) break; for (int j = 0, k = 1; j < n; j++, k--) continue; for (; n; ) n--; }",
    "int f16(int a) { switch (a) { case 1: a = 2; break; case 2: case 3: a = 4; default: a = 5; break; } return a; }",
    "int f17(int a) { switch (a) a = 1; switch (a) { } switch (a) { int z; case 1: z = 1; { case 2: z = 2; } } return a; }",
    "void f18(int a) { goto end; a = 1; end: ; loop: a++; if (a < 10) goto loop; }",
    "void f19(void) { { } { int a; { int b; a = b = 0; } } ; ; }",
    "int f20(void) { return 1; } void f21(void) { return; }",
    "void f22(void) { int x; typedef int TT; TT y; { char TT; TT = 1; } x = y = 0; }",
    "typedef int T2; void f23(T2 T2) { T2 = 1; } void f24(int T2) { T2++; }",
    "typedef char TC; void f25(void) { int TC = 3; int y = TC * 2; (void)y; }",
    "typedef int TI; struct SI { TI TI; }; TI ti(TI (x)); TI tj(TI (TI));",
    "inline int f26(void) { return 1; } static inline int f27(void) { return 2; }",
    "_Noreturn void die(void); _Thread_local int tls; static _Thread_local int tls2;",
    "_Static_assert(sizeof(int) >= 2, \"int too small\"); void f28(void) { _Static_assert(1, \"ok\"); }",
    "_Alignas(16) int al1; _Alignas(double) char al2[8]; struct AL { _Alignas(8) int m; };",
    "_Atomic int at1; _Atomic(int) at2; int *_Atomic at3; _Atomic(int *) at4; typedef _Atomic(int) ati_t;",
    "_Bool b1; _Complex double cd; long long ll1; unsigned long long ull1; long double ld; signed char sc; __int128 i128;",
    "struct A1 { union { int a; float b; }; struct { int c, d; }; int e; } a1 = { .a = 1, .c = 2, .e = 3 };",
    "const int *cp1; int *const cp2 = 0; const int *const cp3 = 0; int *restrict rp; volatile int *const volatile vp = 0;",
    "int const ci = 1; const volatile int cvi; void rf(register int r);",
    "int kr(); int kr2(int (*)(void), char **); int va(const char *fmt, ...);",
    "struct Fwd; struct Fwd *fwdp; enum En2 { EA }; enum En2 en2; union Un2; union Un2 *unp;",
    "struct Empty { }; struct Semi { int a;; int b; };",
    "#pragma once\nint pg1;\n#pragma pack(push, 1)\nstruct PK { char c; int i; };\n#pragma pack(pop)\n",
    "void f29(int a) {\n#pragma omp parallel\n  for (;;) { a++; break; }\n  if (a)\n#pragma unroll\n    a = 1;\n}\n",
    "struct PS {\n#pragma pack(1)\n int a;\n};\n",
    "void f30(void) { _Pragma(\"omp barrier\") ; }",
    "# 1 \"inc.h\" 1\nint from_inc;\n# 7 \"main.c\" 2\nint from_main;\n#line 99\nint at99;\n",
    "int f31(int a) { return (a); } int f32(int a, int b) { return ((a) + ((b))) * (a - (b - a)); }",
    "int f33(int a) { return a ? (a, 1) : 2; } int f34(int a) { int b = (a, 2); return b; }",
    "void f35(int *p, int i) { p[i] = p[i + 1]; p[i]++; (*p)++; *p++; (&p[0])[1] = 0; }",
    "struct FP { int (*cb)(int); }; int f36(struct FP *s, struct FP t) { return s->cb(1) + t.cb(2) + (*s->cb)(3); }",
    "int f37(void) { int a[3] = { 0 }; int n = sizeof a / sizeof a[0]; return n + sizeof(a) + sizeof((a)); }",
    "int f38(int a) { return a+++a; } int f39(int a, int b) { return a- -b + a-+b; }",
    "long f40(void) { return 1L + 2l + 3LL + 4ul + 0x7fffffffL + 0777 + 1e3 + 'a' + '\\x41' + '\\101'; }",
    "char *f41(void) { return \"tab\\t quote\\\" backslash\\\\ nul\\0 hex\\x41 oct\\101\"; }",
    "void f42(void) { int $dollar = 1; int _under = $dollar; (void)_under; }",
    "int f43(int n) { int vla[n]; int vla2[n][n + 1]; return sizeof vla + sizeof vla2; }",
    "void f44(int n, int a[n]); void f45(int n, int a[*]); void f46(int a[const 3]);",
    "typedef int (*cmp_t)(const void *, const void *); cmp_t cmps[2]; cmp_t getcmp(int which);",
    "typedef unsigned char u8_t, *u8p_t, u8a_t[4]; u8_t v1; u8p_t v2; u8a_t v3;",
    "enum Color { RED, GREEN, BLUE }; int f47(enum Color c) { switch (c) { case RED: return 1; case GREEN: case BLUE: return 2; } return 0; }",
    "int f48(int a) { a = a ? a : a; a = (a ? a : a) ? a : a; return a ? a = 1, a : a; }",
    "int f49(int *p) { return *p * *p; } int f50(int a, int *p) { return a * *p; } int f51(int a) { return a & -a & ~a; }",
    "int f52(void) { int x = sizeof(int) * 2; int y = (int)sizeof(int) * 2; int z = sizeof(int[3]); return x + y + z; }",
    "void f53(void) { struct L { int v; } l; enum { LA, LB } le = LA; union { int a; } lu; l.v = le; lu.a = l.v; }",
    "int f54(int a) { lbl: switch (a) { default: a = 0; case 0: lbl2: a++; } return a; }",
    "int e0[] = {}; struct E2 {} e2, *pe2; union U0 {};",
    "enum E1 { A1, B1 } a1, b1[2]; struct SD { int a; } sx, *sy, sz[2]; typedef union UD { int i; } UD, *PUD;",
    "struct flags { unsigned ready : 3, count; int mode : 1, : 0, *next, pad : 4; int tail; };",
    "void fa(int *[2][3]); int sb = sizeof(int *[2][3]); char *const *(*pc)[2][3];",
    "inline _Noreturn void in1(void); _Noreturn inline void in2(void); _Thread_local static int ts1; _Thread_local extern int ts2;",
    "int fr(int a, int b, int c, int d, int e) { return a ? b : c ? d : e; } int fs(int x) { return - --x + + ++x; }",
    "int ft(int r) { switch (r) { case 3: case 4: case 5: r = 20; r += 2; break; default: ; } return r; }",
    "void fu(int a) { if (a) a = 1; else\n#pragma p\n a = 2; a = 3; L0: 0; L1: 'q'; L2: \"s\"; }",
    "typedef int TT2; void fw(TT2); void fx(int (TT2)); void fy(const TT2 *, TT2 (*)(TT2)); struct SW { TT2 TT2; int x; };",
    "int fz(void) { return sizeof (int){1} + (int[]){1, 2}[0] + ((struct P2){ .x = 1 }).x; } struct P2 { int x; };",
    "extern int ext1; extern int extf(void); static int sf(void) { return ext1; } auto_ok() { auto int a = 1; register int r = 2; return a + r; }",
]


def zoo():
    return [(f"zoo{i}", s) for i, s in enumerate(ZOO)]


_cache = {}


def repo_files():
    """(name, text) for the repository's C files, preprocessed with cpp and the
    fake headers (linemarkers kept), plus the three benchmark .ppout files."""
    if "files" in _cache:
        return _cache["files"]
    out = []
    cands = sorted(glob.glob(os.path.join(sut.REPO, "tests", "c_files", "*.c")) +
                   glob.glob(os.path.join(sut.REPO, "examples", "c_files", "*.c")))
    for path in cands:
        try:
            r = subprocess.run(["cpp", "-std=c11", "-nostdinc", "-I", sut.FAKE_LIBC,
                                "-I", os.path.dirname(path), path],
                               capture_output=True, text=True, timeout=60)
        except Exception:
            continue
        if r.returncode == 0 and r.stdout.strip():
            out.append((os.path.relpath(path, sut.REPO), r.stdout))
    _cache["files"] = out
    return out


def big_files():
    if "big" in _cache:
        return _cache["big"]
    out = []
    for path in sorted(glob.glob(os.path.join(sut.REPO, "utils", "benchmark", "inputs", "*.ppout"))):
        with open(path, encoding="utf-8", errors="replace") as f:
            out.append((os.path.relpath(path, sut.REPO), f.read()))
    _cache["big"] = out
    return out


def split_top_level(text, max_chunk=4000):
    """Cut a big preprocessed file into self-contained chunks at top-level ';' /
    '}' boundaries (brace depth 0), keeping everything before as context is NOT
    possible in general, so chunks are prefixes: used for size-scaling only."""
    cuts = []
    depth = 0
    for i, ch in enumerate(text):
        if ch == "{":
            depth += 1
        elif ch == "}":
            depth -= 1
            if depth == 0:
                cuts.append(i + 1)
        elif ch == ";" and depth == 0:
            cuts.append(i + 1)
    return cuts


def accepted_pool(include_big=False):
    """All corpus programs that the parser under test accepts today."""
    S = sut.load()
    pool = []
    for name, text in zoo() + repo_files() + (big_files() if include_big else []):
        try:
            S.CParser().parse(text, name)
        except Exception:
            continue
        pool.append((name, text))
    return pool
