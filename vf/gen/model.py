"""Model-first C program generator.

Abstract programs are built from my own node class M (nothing from pycparser).
A renderer turns a model into a *token list* and records, for every model node,
the span [first, last] of token indexes it covers and its 'main' token.  The
grammar levels used to place parentheses are my transcription of C99 6.5
(ref.prec below), never pycparser's table.
"""
import random

# ---------------------------------------------------------------- model nodes


class M:
    __slots__ = ("k", "f", "first", "last", "tok", "aux")

    def __init__(self, k, **f):
        self.k = k
        self.f = f
        self.first = None
        self.last = None
        self.tok = None
        self.aux = None

    def __getitem__(self, key):
        return self.f[key]

    def get(self, key, default=None):
        return self.f.get(key, default)

    def __repr__(self):
        return f"M({self.k}, {self.f})"


class Em:
    """Token emitter.  Directive tokens (whole '#pragma ...' lines) are flagged:
    the layout stage must keep each on a line of its own."""

    def __init__(self):
        self.toks = []
        self.directive = set()

    def t(self, s):
        self.toks.append(s)
        return len(self.toks) - 1

    def d(self, s):
        i = self.t(s)
        self.directive.add(i)
        return i

    def __len__(self):
        return len(self.toks)


# ---------------------------------------------------------------- ref.prec
# C99 6.5 grammar levels, higher binds tighter
PRIMARY, POSTFIX, UNARY, CAST = 16, 15, 14, 13
BIN = {"*": 12, "/": 12, "%": 12, "+": 11, "-": 11, "<<": 10, ">>": 10, "<": 9, ">": 9, "<=": 9, ">=": 9,
       "==": 8, "!=": 8, "&": 7, "^": 6, "|": 5, "&&": 4, "||": 3}
COND, ASSIGN, COMMA = 2, 1, 0
ASSIGN_OPS = ["=", "*=", "/=", "%=", "+=", "-=", "<<=", ">>=", "&=", "^=", "|="]
PRE_OPS = ["++", "--", "&", "*", "+", "-", "~", "!", "sizeof"]
POST_OPS = ["++", "--"]


def level(n):
    k = n.k
    if k in ("id", "const", "str"):
        return PRIMARY
    if k in ("post", "idx", "call", "mem", "clit", "off"):
        return POSTFIX
    if k in ("pre", "szt", "alt"):
        return UNARY
    if k == "cast":
        return CAST
    if k == "bin":
        return BIN[n["op"]]
    if k == "cond":
        return COND
    if k == "asg":
        return ASSIGN
    if k == "comma":
        return COMMA
    raise ValueError(k)


class RenderCfg:
    def __init__(self, mode="min", rnd=None, pparen=0.15):
        self.mode = mode  # 'min' | 'full' | 'rand'
        self.rnd = rnd or random.Random(0)
        self.pparen = pparen


def rx(n, need, E, cfg):
    """Render expression n where grammar level `need` is required."""
    wraps = 0
    if level(n) < need:
        wraps = 1
    elif cfg.mode == "full" and level(n) != PRIMARY:
        wraps = 1
    if cfg.mode == "rand":
        while cfg.rnd.random() < cfg.pparen and wraps < 3:
            wraps += 1
    first = len(E)
    for _ in range(wraps):
        E.t("(")
    render_expr(n, E, cfg)
    for _ in range(wraps):
        E.t(")")
    if wraps:
        n.aux = (first, len(E) - 1)  # span including redundant parentheses
    return n


def render_expr(n, E, cfg):
    k = n.k
    n.first = len(E)
    if k == "id":
        n.tok = E.t(n["name"])
    elif k == "const":
        n.tok = E.t(n["text"])
    elif k == "str":
        for i, p in enumerate(n["parts"]):
            j = E.t(p)
            if i == 0:
                n.tok = j
    elif k == "bin":
        L = BIN[n["op"]]
        rx(n["l"], L, E, cfg)
        n.tok = E.t(n["op"])
        rx(n["r"], L + 1, E, cfg)
    elif k == "asg":
        rx(n["l"], UNARY, E, cfg)
        n.tok = E.t(n["op"])
        rx(n["r"], ASSIGN, E, cfg)
    elif k == "cond":
        rx(n["c"], BIN["||"], E, cfg)
        n.tok = E.t("?")
        rx(n["t"], COMMA, E, cfg)
        E.t(":")
        rx(n["e"], COND, E, cfg)
    elif k == "comma":
        for i, x in enumerate(n["items"]):
            if i:
                E.t(",")
            rx(x, ASSIGN, E, cfg)
    elif k == "pre":
        n.tok = E.t(n["op"])
        rx(n["e"], UNARY if n["op"] in ("++", "--", "sizeof") else CAST, E, cfg)
    elif k == "post":
        rx(n["e"], POSTFIX, E, cfg)
        n.tok = E.t(n["op"])
    elif k in ("szt", "alt"):
        n.tok = E.t("sizeof" if k == "szt" else "_Alignof")
        E.t("(")
        render_typename(n["tn"], E, cfg)
        E.t(")")
    elif k == "cast":
        n.tok = E.t("(")
        render_typename(n["tn"], E, cfg)
        E.t(")")
        rx(n["e"], CAST, E, cfg)
    elif k == "idx":
        rx(n["a"], POSTFIX, E, cfg)
        n.tok = E.t("[")
        rx(n["i"], COMMA, E, cfg)
        E.t("]")
    elif k == "call":
        rx(n["fn"], POSTFIX, E, cfg)
        n.tok = E.t("(")
        for i, a in enumerate(n["args"]):
            if i:
                E.t(",")
            rx(a, ASSIGN, E, cfg)
        E.t(")")
    elif k == "mem":
        rx(n["e"], POSTFIX, E, cfg)
        n.tok = E.t(n["op"])
        E.t(n["name"])
    elif k == "clit":
        n.tok = E.t("(")
        render_typename(n["tn"], E, cfg)
        E.t(")")
        render_init(n["init"], E, cfg)
    elif k == "off":
        n.tok = E.t("offsetof")
        E.t("(")
        render_typename(n["tn"], E, cfg)
        E.t(",")
        for i, d in enumerate(n["path"]):
            if d[0] == ".":
                if i:
                    E.t(".")
                E.t(d[1])
            else:
                E.t("[")
                rx(d[1], COMMA, E, cfg)
                E.t("]")
        E.t(")")
    else:
        raise ValueError(k)
    n.last = len(E) - 1


# ---------------------------------------------------------------- declarations
# specs: M('specs', storage=[..], funcspec=[..], align=[M('alignas', tn=|e=)], quals=[..],
#          ts=M('basic', words=[..]) | M('tdname', name=) | M('su', kw=, tag=, members=None|[decl..])
#             | M('enum', tag=, items=None|[M('enumerator', name=, value=)]) | M('atomic', tn=),
#          order=[('storage', i) | ('funcspec', i) | ('align', i) | ('qual', i) | ('ts', i)] )  source order
# dtor:  M('dtor', name=str|None, derivs=[...], init=None|init, bits=None|expr)
# deriv: ('ptr', [quals]) | ('arr', {'quals': [...], 'static': None|'first'|'last', 'size': expr|None|'*'})
#        | ('fn', {'params': None|[M('param'...)], 'variadic': bool, 'kr': None|[names]})
# decl:  M('decl', specs=, dtors=[...])  ; param: M('param', specs=, dtor=)
# tn:    M('tn', specs=, dtor=)   (abstract dtor: name None)


def render_specs(sp, E, cfg):
    sp.first = len(E)
    for kind, i in sp["order"]:
        if kind == "storage":
            E.t(sp["storage"][i])
        elif kind == "funcspec":
            E.t(sp["funcspec"][i])
        elif kind == "qual":
            E.t(sp["quals"][i])
        elif kind == "align":
            a = sp["align"][i]
            a.first = a.tok = E.t("_Alignas")
            E.t("(")
            if a.get("tn") is not None:
                render_typename(a["tn"], E, cfg)
            else:
                rx(a["e"], COND, E, cfg)
            E.t(")")
            a.last = len(E) - 1
        else:
            render_ts(sp["ts"], i, E, cfg)
    sp.last = len(E) - 1


def render_ts(ts, i, E, cfg):
    k = ts.k
    if k == "basic":
        j = E.t(ts["words"][i])
        if i == 0:
            ts.first = ts.tok = j
        ts.last = j
        return
    ts.first = len(E)
    if k == "tdname":
        ts.tok = E.t(ts["name"])
    elif k == "su":
        ts.tok = E.t(ts["kw"])
        if ts["tag"] is not None:
            E.t(ts["tag"])
        if ts["members"] is not None:
            E.t("{")
            for m in ts["members"]:
                render_member(m, E, cfg)
            E.t("}")
    elif k == "enum":
        ts.tok = E.t("enum")
        if ts["tag"] is not None:
            E.t(ts["tag"])
        if ts["items"] is not None:
            E.t("{")
            for j, it in enumerate(ts["items"]):
                if j:
                    E.t(",")
                it.first = it.tok = E.t(it["name"])
                if it["value"] is not None:
                    E.t("=")
                    rx(it["value"], COND, E, cfg)
                it.last = len(E) - 1
            if ts.get("trailing_comma"):
                E.t(",")
            E.t("}")
    elif k == "atomic":
        ts.tok = E.t("_Atomic")
        E.t("(")
        render_typename(ts["tn"], E, cfg)
        E.t(")")
    ts.last = len(E) - 1


def render_member(m, E, cfg):
    if m.k == "pragma":
        m.first = m.last = m.tok = E.d("#pragma " + m["text"] if m["text"] else "#pragma")
    elif m.k == "sassert":
        render_sassert(m, E, cfg)
        E.t(";")
    elif m.k == "semi":
        m.first = m.last = E.t(";")
    else:
        render_decl(m, E, cfg)


def render_dtor(d, E, cfg):
    """Compose the declarator text inside-out (C99 6.7.5): the derivation list is
    outermost-first (derivs[0] applies to the name directly)."""
    d.first = len(E)
    derivs = d["derivs"]
    # Build a nested structure then emit: innermost part is the name; a pointer
    # derivation prefixes '*', array/function derivations suffix, parenthesising
    # when a suffix follows a pointer.
    parts = [("name", d["name"])]
    prev = None
    for dv in derivs:
        if dv[0] == "ptr":
            parts = [("star", dv[1])] + parts
        else:
            if prev == "ptr":
                parts = [("lp",)] + parts + [("rp",)]
            parts = parts + [dv]
        prev = dv[0]
    if d.get("extra_parens") and d["name"] is not None:
        parts = [("lp",)] + parts + [("rp",)]
    for p in parts:
        if p[0] == "name":
            if p[1] is not None:
                d.tok = E.t(p[1])
        elif p[0] == "star":
            E.t("*")
            for q in p[1]:
                E.t(q)
        elif p[0] == "lp":
            E.t("(")
        elif p[0] == "rp":
            E.t(")")
        elif p[0] == "arr":
            a = p[1]
            E.t("[")
            if a.get("static") == "first":
                E.t("static")
            for q in a.get("quals", []):
                E.t(q)
            if a.get("static") == "last":
                E.t("static")
            if a.get("size") == "*":
                sm = M("id", name="*")       # the ID('*') node of the AST is located at this token
                sm.first = sm.last = sm.tok = E.t("*")
                a["star_m"] = sm
            elif a.get("size") is not None:
                rx(a["size"], ASSIGN, E, cfg)
            E.t("]")
        elif p[0] == "fn":
            f = p[1]
            E.t("(")
            if f.get("kr") is not None:
                for i, nm in enumerate(f["kr"]):
                    if i:
                        E.t(",")
                    E.t(nm)
            elif f.get("params") is not None:
                for i, prm in enumerate(f["params"]):
                    if i:
                        E.t(",")
                    render_param(prm, E, cfg)
                if f.get("variadic"):
                    E.t(",")
                    E.t("...")
            E.t(")")
    if d.get("bits") is not None:
        E.t(":")
        rx(d["bits"], COND, E, cfg)
    if d.get("init") is not None:
        E.t("=")
        render_init(d["init"], E, cfg)
    d.last = len(E) - 1
    if d.last < d.first:
        d.first = d.last = None  # empty abstract declarator


def render_param(p, E, cfg):
    p.first = len(E)
    render_specs(p["specs"], E, cfg)
    render_dtor(p["dtor"], E, cfg)
    p.last = len(E) - 1


def render_typename(tn, E, cfg):
    tn.first = len(E)
    render_specs(tn["specs"], E, cfg)
    render_dtor(tn["dtor"], E, cfg)
    tn.last = len(E) - 1


def render_init(i, E, cfg):
    """init: expression model, or M('ilist', items=[M('iitem', desig=None|[('.',name)|('[',expr)], init=)], trailing_comma=)"""
    if i.k != "ilist":
        rx(i, ASSIGN, E, cfg)
        return
    i.first = i.tok = E.t("{")
    for j, it in enumerate(i["items"]):
        if j:
            E.t(",")
        it.first = len(E)
        if it["desig"]:
            for d in it["desig"]:
                if d[0] == ".":
                    E.t(".")
                    E.t(d[1])
                else:
                    E.t("[")
                    rx(d[1], COND, E, cfg)
                    E.t("]")
            E.t("=")
        render_init(it["init"], E, cfg)
        it.last = len(E) - 1
    if i.get("trailing_comma") and i["items"]:
        E.t(",")
    E.t("}")
    i.last = len(E) - 1


def render_decl(d, E, cfg, semi=True):
    d.first = len(E)
    render_specs(d["specs"], E, cfg)
    for i, dt in enumerate(d["dtors"]):
        if i:
            E.t(",")
        render_dtor(dt, E, cfg)
    if semi:
        E.t(";")
    d.last = len(E) - 1


def render_sassert(s, E, cfg):
    s.first = s.tok = E.t("_Static_assert")
    E.t("(")
    rx(s["cond"], COND, E, cfg)
    if s.get("msg") is not None:
        E.t(",")
        for p in s["msg"]:
            E.t(p)
    E.t(")")
    s.last = len(E) - 1


# ---------------------------------------------------------------- statements


def render_stmt(s, E, cfg):
    k = s.k
    s.first = len(E)
    if k == "expr":
        rx(s["e"], COMMA, E, cfg)
        E.t(";")
    elif k == "empty":
        s.tok = E.t(";")
    elif k == "block":
        s.tok = E.t("{")
        for it in s["items"]:
            render_stmt(it, E, cfg)
        E.t("}")
    elif k == "if":
        s.tok = E.t("if")
        E.t("(")
        rx(s["c"], COMMA, E, cfg)
        E.t(")")
        render_stmt(s["then"], E, cfg)
        if s["els"] is not None:
            E.t("else")
            render_stmt(s["els"], E, cfg)
    elif k == "while":
        s.tok = E.t("while")
        E.t("(")
        rx(s["c"], COMMA, E, cfg)
        E.t(")")
        render_stmt(s["body"], E, cfg)
    elif k == "do":
        s.tok = E.t("do")
        render_stmt(s["body"], E, cfg)
        E.t("while")
        E.t("(")
        rx(s["c"], COMMA, E, cfg)
        E.t(")")
        E.t(";")
    elif k == "for":
        s.tok = E.t("for")
        E.t("(")
        if s["init"] is not None:
            if s["init"].k == "decl":
                render_decl(s["init"], E, cfg, semi=False)
            else:
                rx(s["init"], COMMA, E, cfg)
        E.t(";")
        if s["c"] is not None:
            rx(s["c"], COMMA, E, cfg)
        E.t(";")
        if s["next"] is not None:
            rx(s["next"], COMMA, E, cfg)
        E.t(")")
        render_stmt(s["body"], E, cfg)
    elif k == "switch":
        s.tok = E.t("switch")
        E.t("(")
        rx(s["c"], COMMA, E, cfg)
        E.t(")")
        render_stmt(s["body"], E, cfg)
    elif k == "case":
        s.tok = E.t("case")
        rx(s["e"], COND, E, cfg)
        E.t(":")
        render_stmt(s["stmt"], E, cfg)
    elif k == "default":
        s.tok = E.t("default")
        E.t(":")
        render_stmt(s["stmt"], E, cfg)
    elif k == "label":
        s.tok = E.t(s["name"])
        E.t(":")
        render_stmt(s["stmt"], E, cfg)
    elif k == "goto":
        s.tok = E.t("goto")
        E.t(s["name"])
        E.t(";")
    elif k in ("break", "continue"):
        s.tok = E.t(k)
        E.t(";")
    elif k == "return":
        s.tok = E.t("return")
        if s["e"] is not None:
            rx(s["e"], COMMA, E, cfg)
        E.t(";")
    elif k == "decl":
        render_decl(s, E, cfg)
    elif k == "sassert":
        render_sassert(s, E, cfg)
        s.aux = E.t(";")
    elif k == "pragma":
        s.tok = E.d("#pragma " + s["text"] if s["text"] else "#pragma")
    elif k == "pragmaop":
        s.tok = E.t("_Pragma")
        E.t("(")
        E.t(s["lit"])
        E.t(")")
    elif k == "prag":  # pragmas directly before a sub-statement
        for p in s["pragmas"]:
            render_stmt(p, E, cfg)
        render_stmt(s["stmt"], E, cfg)
    else:
        raise ValueError(k)
    s.last = len(E) - 1


def render_funcdef(f, E, cfg):
    f.first = len(E)
    render_specs(f["specs"], E, cfg)
    render_dtor(f["dtor"], E, cfg)
    for d in f.get("krdecls") or []:
        render_decl(d, E, cfg)
    render_stmt(f["body"], E, cfg)
    f.last = len(E) - 1


def render_tu(tu, cfg=None):
    """tu: M('tu', items=[decl | funcdef | pragma | pragmaop | sassert | semi])"""
    cfg = cfg or RenderCfg()
    E = Em()
    for it in tu["items"]:
        if it.k == "funcdef":
            render_funcdef(it, E, cfg)
        elif it.k == "decl":
            render_decl(it, E, cfg)
        elif it.k == "sassert":
            render_sassert(it, E, cfg)
            E.t(";")
        elif it.k == "semi":
            it.first = it.last = E.t(";")
        else:
            render_stmt(it, E, cfg)
    return E


# ---------------------------------------------------------------- helpers to build models

def ident(name):
    return M("id", name=name)


def const(text, ctype):
    return M("const", text=text, ctype=ctype)


def basic_specs(words, quals=(), storage=(), funcspec=(), order=None, align=()):
    ts = M("basic", words=list(words))
    if order is None:
        order = [("storage", i) for i in range(len(storage))] + [("funcspec", i) for i in range(len(funcspec))] + \
                [("align", i) for i in range(len(align))] + \
                [("qual", i) for i in range(len(quals))] + [("ts", i) for i in range(len(words))]
    return M("specs", storage=list(storage), funcspec=list(funcspec), align=list(align), quals=list(quals), ts=ts, order=order)


def specs_of(ts, quals=(), storage=(), funcspec=(), align=(), order=None):
    n_ts = len(ts["words"]) if ts.k == "basic" else 1
    if order is None:
        order = [("storage", i) for i in range(len(storage))] + [("funcspec", i) for i in range(len(funcspec))] + \
                [("align", i) for i in range(len(align))] + \
                [("qual", i) for i in range(len(quals))] + [("ts", i) for i in range(n_ts)]
    return M("specs", storage=list(storage), funcspec=list(funcspec), align=list(align), quals=list(quals), ts=ts, order=order)


def dtor(name, derivs=(), init=None, bits=None, extra_parens=False):
    return M("dtor", name=name, derivs=list(derivs), init=init, bits=bits, extra_parens=extra_parens)


def typename(specs, derivs=()):
    return M("tn", specs=specs, dtor=dtor(None, derivs))


def simple_tn(word="int", derivs=()):
    return typename(basic_specs([word]), derivs)


def wrap_function(body_items, name="f", params=None):
    """void name(void) { items }"""
    fn = ("fn", {"params": params if params is not None else [M("param", specs=basic_specs(["void"]), dtor=dtor(None))],
                 "variadic": False, "kr": None})
    return M("funcdef", specs=basic_specs(["void"]), dtor=dtor(name, [fn]), krdecls=None,
             body=M("block", items=list(body_items)))


def tu(items):
    return M("tu", items=list(items))
