"""Generators of model programs: expressions, declarations, statements, whole
translation units.  Bounded-exhaustive enumerators and seeded random ones.

Name pools are disjoint so that the typedef-name rule is trivially respected in
the main stream: objects a..e,p,q; functions fn0..; typedef names T0..T3
(declared by PRELUDE); tags S0..; members m0..; labels L0..; enumerators E0.."""
import itertools

from .model import (ASSIGN_OPS, BIN, M, POST_OPS, PRE_OPS, basic_specs, const, dtor, ident, simple_tn, specs_of,
                    tu, typename, wrap_function)

OBJ = ["a", "b", "c", "d", "e"]
TYPEDEFS = ["T0", "T1", "T2", "T3"]
# prelude items (models) declaring the typedef names and a struct tag
INT_SUFFIX_TYPES = {"": "int", "u": "unsigned int", "U": "unsigned int", "l": "long int", "L": "long int",
                    "ul": "unsigned long int", "UL": "unsigned long int", "lu": "unsigned long int",
                    "Lu": "unsigned long int", "uL": "unsigned long int",
                    "ll": "long long int", "LL": "long long int", "ull": "unsigned long long int",
                    "ULL": "unsigned long long int", "llu": "unsigned long long int", "LLU": "unsigned long long int",
                    "uLL": "unsigned long long int", "Ull": "unsigned long long int"}
# pycparser documents the type string as 'unsigned '*u + 'long '*l + 'int'


def int_const(body, suffix=""):
    return const(body + suffix, INT_SUFFIX_TYPES[suffix])


CONSTS = [
    lambda: int_const("0"), lambda: int_const("1"), lambda: int_const("42"), lambda: int_const("017"),
    lambda: int_const("0x1F"), lambda: int_const("0Xab"), lambda: int_const("0b101"), lambda: int_const("7", "u"),
    lambda: int_const("7", "UL"), lambda: int_const("7", "ll"), lambda: int_const("0x7f", "ULL"),
    lambda: int_const("9", "lu"), lambda: int_const("3", "L"), lambda: int_const("5", "llu"),
    lambda: const("1.5", "double"), lambda: const(".5", "double"), lambda: const("2.", "double"),
    lambda: const("1e3", "double"), lambda: const("1.5e-3f", "float"), lambda: const("2.0L", "long double"),
    lambda: const("0x1.8p3", "double"), lambda: const("0x1p-2f", "float"), lambda: const("1E+2l", "long double"),
    lambda: const("09.5", "double"), lambda: const("08e1", "double"), lambda: const("019.", "double"), lambda: const("0078.25f", "float"),
    lambda: const("00.5", "double"), lambda: const("1e5f", "float"), lambda: const("0e0", "double"), lambda: const("0x.8p1L", "long double"),
    lambda: const("0xAp+3", "double"), lambda: const("1.e-2L", "long double"), lambda: int_const("00"), lambda: int_const("0", "ULL"),
    lambda: const("'a'", "char"), lambda: const("'\\n'", "char"), lambda: const("'\\''", "char"),
    lambda: const("'\\x41'", "char"), lambda: const("'\\101'", "char"), lambda: const("L'w'", "char"),
    lambda: const("u'x'", "char"), lambda: const("U'y'", "char"), lambda: const("u8'z'", "char"),
    lambda: const("'ab'", "int"), lambda: const("'ul'", "int"),
    lambda: M("str", parts=['"s"']), lambda: M("str", parts=['"a"', '"b"', '"c\\n"']),
    lambda: M("str", parts=['L"w"']), lambda: M("str", parts=['L"w"', 'L"x"']),
    lambda: M("str", parts=['u8"p"', 'u8"q"']), lambda: M("str", parts=['u"p"']), lambda: M("str", parts=['U"p"', 'U"qq"']),
    lambda: M("str", parts=['"\\"quoted\\\\"']),
]


def leaf(rnd):
    r = rnd.random()
    if r < 0.6:
        return ident(rnd.choice(OBJ))
    return rnd.choice(CONSTS)()


# ------------------------------------------------------------------ type names for expressions

def tn_variants():
    return [
        lambda: simple_tn("int"),
        lambda: simple_tn("char", [("ptr", [])]),
        lambda: typename(basic_specs(["unsigned", "long"], quals=["const"])),
        lambda: typename(specs_of(M("tdname", name="T0"))),
        lambda: typename(specs_of(M("su", kw="struct", tag="S0", members=None)), [("ptr", ["const"])]),
        lambda: simple_tn("int", [("ptr", []), ("arr", {"size": int_const("3")})]),
        lambda: simple_tn("void", [("ptr", []), ("fn", {"params": [M("param", specs=basic_specs(["int"]), dtor=dtor(None))], "variadic": False, "kr": None})]),
        lambda: typename(specs_of(M("enum", tag="EN0", items=None))),
        # the _Atomic(type-name) specifier inside a type name, without and with a declarator of its own
        lambda: typename(specs_of(M("atomic", tn=simple_tn("int")))),
        lambda: typename(specs_of(M("atomic", tn=simple_tn("long", [("ptr", [])])))),
        lambda: typename(specs_of(M("atomic", tn=simple_tn("char"))), [("ptr", [])]),
    ]


def rand_tn(rnd):
    return rnd.choice(tn_variants())()


# ------------------------------------------------------------------ expression enumerations

def ops1(a, b, c, with_types=True):
    """All single-operator trees over operands a, b, c (fresh copies are made by callers)."""
    out = []
    for op in BIN:
        out.append(lambda op=op: M("bin", op=op, l=a(), r=b()))
    for op in ASSIGN_OPS:
        out.append(lambda op=op: M("asg", op=op, l=a(), r=b()))
    out.append(lambda: M("cond", c=a(), t=b(), e=c()))
    out.append(lambda: M("comma", items=[a(), b()]))
    for op in PRE_OPS:
        out.append(lambda op=op: M("pre", op=op, e=a()))
    for op in POST_OPS:
        out.append(lambda op=op: M("post", op=op, e=a()))
    out.append(lambda: M("cast", tn=simple_tn("int"), e=a()))
    out.append(lambda: M("idx", a=a(), i=b()))
    out.append(lambda: M("call", fn=a(), args=[b(), c()]))
    out.append(lambda: M("call", fn=a(), args=[]))
    out.append(lambda: M("mem", op=".", e=a(), name="m0"))
    out.append(lambda: M("mem", op="->", e=a(), name="m1"))
    if with_types:
        out.append(lambda: M("szt", tn=simple_tn("int")))
        out.append(lambda: M("alt", tn=simple_tn("int", [("ptr", [])])))
        out.append(lambda: M("clit", tn=simple_tn("int"), init=M("ilist", items=[M("iitem", desig=None, init=a())], trailing_comma=False)))
    return out


def slots(n):
    """Child positions of an expression node that can take a sub-expression."""
    k = n.k
    if k in ("bin", "asg"):
        return ["l", "r"]
    if k == "cond":
        return ["c", "t", "e"]
    if k == "comma":
        return [("items", i) for i in range(len(n["items"]))]
    if k in ("pre", "post", "cast", "mem"):
        return ["e"]
    if k == "idx":
        return ["a", "i"]
    if k == "call":
        return ["fn"] + [("args", i) for i in range(len(n["args"]))]
    if k == "clit":
        return [("clit", 0)]
    return []


def put(n, slot, sub):
    if isinstance(slot, tuple):
        if slot[0] == "clit":
            n["init"]["items"][0].f["init"] = sub
        else:
            n[slot[0]][slot[1]] = sub
    else:
        n.f[slot] = sub


def get(n, slot):
    if isinstance(slot, tuple):
        if slot[0] == "clit":
            return n["init"]["items"][0]["init"]
        return n[slot[0]][slot[1]]
    return n[slot]


def _mk(names):
    return [lambda nm=nm: ident(nm) for nm in names]


def enum_exprs(nops):
    """Yield (index, builder) for all expression trees with exactly nops operator
    nodes built by nesting single-operator trees (covers every shape)."""
    A = ops1(*_mk(["a", "b", "c"]))
    B = ops1(*_mk(["x", "y", "z"]))
    C = ops1(*_mk(["u", "v", "w"]))
    if nops == 1:
        for f in A:
            yield f
        return
    if nops == 2:
        for f in A:
            for s in slots(f()):
                for g in B:
                    def build(f=f, s=s, g=g):
                        t = f()
                        put(t, s, g())
                        return t
                    yield build
        return
    if nops == 3:
        for f in A:
            t0 = f()
            for s in slots(t0):
                for g in B:
                    t1 = g()
                    # third operator either inside g (chain) or in a later slot of f (balanced)
                    for s2 in slots(t1):
                        for h in C:
                            def build(f=f, s=s, g=g, s2=s2, h=h):
                                t = f()
                                u = g()
                                put(u, s2, h())
                                put(t, s, u)
                                return t
                            yield build
                    for s3 in slots(t0):
                        if s3 == s or (str(s3) < str(s)):
                            continue
                        for h in C:
                            def build(f=f, s=s, g=g, s3=s3, h=h):
                                t = f()
                                put(t, s, g())
                                put(t, s3, h())
                                return t
                            yield build
        return
    raise ValueError(nops)


def rand_expr(rnd, depth, allow_comma=True):
    if depth <= 0 or rnd.random() < 0.15:
        return leaf(rnd)
    a = lambda: rand_expr(rnd, depth - 1, allow_comma)  # noqa: E731
    r = rnd.random()
    if r < 0.30:
        return M("bin", op=rnd.choice(list(BIN)), l=a(), r=a())
    if r < 0.38:
        return M("asg", op=rnd.choice(ASSIGN_OPS), l=a(), r=a())
    if r < 0.45:
        return M("cond", c=a(), t=a(), e=a())
    if r < 0.50 and allow_comma:
        return M("comma", items=[a() for _ in range(rnd.choice([2, 2, 3]))])
    if r < 0.62:
        return M("pre", op=rnd.choice(PRE_OPS), e=a())
    if r < 0.67:
        return M("post", op=rnd.choice(POST_OPS), e=a())
    if r < 0.73:
        return M("cast", tn=rand_tn(rnd), e=a())
    if r < 0.79:
        return M("idx", a=a(), i=a())
    if r < 0.86:
        return M("call", fn=a(), args=[a() for _ in range(rnd.choice([0, 1, 2, 3]))])
    if r < 0.92:
        return M("mem", op=rnd.choice([".", "->"]), e=a(), name=rnd.choice(["m0", "m1", "T0"]))
    if r < 0.95:
        return M("szt" if rnd.random() < 0.6 else "alt", tn=rand_tn(rnd))
    if r < 0.98:
        return M("clit", tn=rand_tn(rnd), init=rand_ilist(rnd, depth - 1))
    path = [(".", "m0")]
    for _ in range(rnd.choice([0, 1, 2])):
        path.append((".", rnd.choice(["m1", "T1"])) if rnd.random() < 0.6 else ("[", a()))
    return M("off", tn=typename(specs_of(M("su", kw="struct", tag="S0", members=None))), path=path)


def rand_ilist(rnd, depth):
    items = []
    for _ in range(rnd.choice([1, 1, 2, 3])):
        desig = None
        if rnd.random() < 0.35:
            desig = []
            for _ in range(rnd.choice([1, 1, 2])):
                desig.append((".", rnd.choice(["m0", "m1", "T0"])) if rnd.random() < 0.5 else ("[", rand_cexpr(rnd, 1)))
        init = rand_ilist(rnd, depth - 1) if depth > 0 and rnd.random() < 0.25 else rand_expr(rnd, min(depth, 2), allow_comma=True)
        items.append(M("iitem", desig=desig, init=init))
    return M("ilist", items=items, trailing_comma=rnd.random() < 0.3)


def rand_cexpr(rnd, depth):
    """Constant-expression shaped tree (conditional-expression level)."""
    if depth <= 0:
        return rnd.choice([lambda: int_const(str(rnd.randrange(0, 9))), lambda: ident("E0"), lambda: const("'c'", "char")])()
    r = rnd.random()
    a = lambda: rand_cexpr(rnd, depth - 1)  # noqa: E731
    if r < 0.5:
        return M("bin", op=rnd.choice(list(BIN)), l=a(), r=a())
    if r < 0.65:
        return M("cond", c=a(), t=a(), e=a())
    if r < 0.8:
        return M("pre", op=rnd.choice(["-", "~", "!", "+"]), e=a())
    if r < 0.9:
        return M("szt", tn=rand_tn(rnd))
    return M("cast", tn=simple_tn("int"), e=a())


# ------------------------------------------------------------------ declarators

def deriv_alphabet(param=False):
    """Variant alphabet of derivations (fresh models each call)."""
    p = [
        lambda: ("ptr", []),
        lambda: ("ptr", ["const"]),
        lambda: ("ptr", ["volatile", "restrict"]),
        lambda: ("arr", {"size": None}),
        lambda: ("arr", {"size": int_const("3")}),
        lambda: ("fn", {"params": [M("param", specs=basic_specs(["void"]), dtor=dtor(None))], "variadic": False, "kr": None}),
        lambda: ("fn", {"params": [M("param", specs=basic_specs(["int"]), dtor=dtor("x")),
                                   M("param", specs=basic_specs(["char"]), dtor=dtor(None, [("ptr", [])]))],
                        "variadic": True, "kr": None}),
        lambda: ("fn", {"params": None, "variadic": False, "kr": None}),
        lambda: ("arr", {"size": int_const("2"), "quals": ["const"], "static": "first"}),
        lambda: ("arr", {"size": "*", "quals": []}),
        lambda: ("arr", {"size": M("bin", op="+", l=ident("n"), r=int_const("1")), "quals": ["restrict"], "static": "last"}),
        # a parenthesised typedef name in a parameter list is a parameter of that type, never a parameter name (6.7.5.3p11)
        lambda: ("fn", {"params": [M("param", specs=specs_of(M("tdname", name="T0")), dtor=dtor(None)),
                                   M("param", specs=specs_of(M("tdname", name="T1"), quals=["const"]), dtor=dtor(None, [("ptr", [])]))],
                        "variadic": False, "kr": None}),
        lambda: ("arr", {"size": "*", "quals": ["const"]}),
        lambda: ("arr", {"size": "*", "quals": ["restrict", "volatile"]}),
        lambda: ("fn", {"params": [M("param", specs=specs_of(M("tdname", name="T0")), dtor=dtor(None))], "variadic": False, "kr": None}),
        lambda: ("arr", {"size": None, "quals": ["const"]}),
    ]
    return p


N_DERIV_VARIANTS = 16


BASE_SPECS = [
    ["void"], ["char"], ["signed", "char"], ["unsigned", "char"], ["short"], ["short", "int"], ["signed", "short"],
    ["unsigned", "short", "int"], ["int"], ["signed"], ["signed", "int"], ["unsigned"], ["unsigned", "int"], ["long"],
    ["long", "int"], ["unsigned", "long"], ["long", "unsigned", "int"], ["long", "long"], ["long", "long", "int"],
    ["unsigned", "long", "long"], ["long", "unsigned", "long", "int"], ["float"], ["double"], ["long", "double"],
    ["_Bool"], ["float", "_Complex"], ["_Complex", "double"], ["long", "double", "_Complex"], ["int", "long"],
    ["int", "unsigned"], ["__int128"], ["unsigned", "__int128"],
]


def rand_specs(rnd, depth=1, allow_storage=True, storage_choices=None, allow_funcspec=False, allow_align=False,
               allow_defs=True):
    r = rnd.random()
    if r < 0.55:
        ts = M("basic", words=list(rnd.choice(BASE_SPECS)))
    elif r < 0.68:
        ts = M("tdname", name=rnd.choice(TYPEDEFS))
    elif r < 0.82:
        kw = rnd.choice(["struct", "union"])
        members = None
        tag = "S0"
        if allow_defs and depth > 0 and rnd.random() < 0.5:
            members = rand_members(rnd, depth - 1)
            tag = rnd.choice([None, "S%d" % rnd.randrange(1, 50)])
        ts = M("su", kw=kw, tag=tag, members=members)
    elif r < 0.92:
        items = None
        tag = "EN0"
        if allow_defs and rnd.random() < 0.6:
            items = [M("enumerator", name="E%d" % (rnd.randrange(1000, 9999)), value=rand_cexpr(rnd, 1) if rnd.random() < 0.4 else None)
                     for _ in range(rnd.choice([1, 2, 3]))]
            tag = rnd.choice([None, "EN%d" % rnd.randrange(1, 50)])
        ts = M("enum", tag=tag, items=items, trailing_comma=rnd.random() < 0.3)
    else:
        inner_derivs = [("ptr", [])] if rnd.random() < 0.4 else []
        ts = M("atomic", tn=typename(basic_specs([rnd.choice(["int", "char", "long"])],
                                                 quals=["const"] if rnd.random() < 0.3 else []), inner_derivs))
    quals = [q for q in ["const", "volatile"] if rnd.random() < 0.2]
    if ts.k != "atomic" and rnd.random() < 0.06:
        quals.append("_Atomic")
    storage = []
    if allow_storage and rnd.random() < 0.3:
        storage = [rnd.choice(storage_choices or ["static", "extern", "register", "auto", "_Thread_local"])]
        if storage == ["_Thread_local"] and rnd.random() < 0.5:
            storage = [rnd.choice(["static", "extern"]), "_Thread_local"]
    funcspec = []
    if allow_funcspec and rnd.random() < 0.4:
        funcspec = rnd.choice([["inline"], ["_Noreturn"], ["inline", "_Noreturn"], ["_Noreturn", "inline"]])
    align = []
    if allow_align and rnd.random() < 0.15:
        for _ in range(rnd.choice([1, 1, 2])):
            if rnd.random() < 0.5:
                align.append(M("alignas", tn=rand_tn(rnd)))
            else:
                align.append(M("alignas", e=rand_cexpr(rnd, 1)))
    n_ts = len(ts["words"]) if ts.k == "basic" else 1
    order = ([("storage", i) for i in range(len(storage))] + [("funcspec", i) for i in range(len(funcspec))] +
             [("align", i) for i in range(len(align))] + [("qual", i) for i in range(len(quals))])
    tsl = [("ts", i) for i in range(n_ts)]
    # interleave: keep ts words in order, others anywhere (C allows any order)
    rnd.shuffle(order)
    merged = []
    oi = 0
    for t in tsl:
        while oi < len(order) and rnd.random() < 0.5:
            merged.append(order[oi])
            oi += 1
        merged.append(t)
    merged.extend(order[oi:])
    # storage first is the common case; bias towards it
    if rnd.random() < 0.6:
        merged.sort(key=lambda x: 0 if x[0] in ("storage", "funcspec") else 1)
    # C11 6.7.2.4p4: '_Atomic' directly followed by '(' is the type specifier form, so the
    # qualifier must never be the last specifier (the declarator may start with '(')
    if "_Atomic" in quals and merged and merged[-1] == ("qual", quals.index("_Atomic")):
        merged.insert(0, merged.pop())
    return M("specs", storage=storage, funcspec=funcspec, align=align, quals=quals, ts=ts, order=merged)


def rand_members(rnd, depth):
    out = []
    for i in range(rnd.choice([1, 2, 3])):
        r = rnd.random()
        if r < 0.08:
            out.append(M("pragma", text="pack(%d)" % rnd.randrange(1, 9)))
            continue
        if r < 0.14:
            out.append(M("sassert", cond=rand_cexpr(rnd, 1), msg=['"m"'] if rnd.random() < 0.7 else None))
            continue
        if r < 0.18:
            out.append(M("semi"))
            continue
        sp = rand_specs(rnd, depth, allow_storage=False, allow_align=True)
        if sp["ts"].k in ("su",) and sp["ts"]["members"] is not None and rnd.random() < 0.3:
            # anonymous struct/union member (C11)
            sp["ts"].f["tag"] = None
            out.append(M("decl", specs=sp, dtors=[]))
            continue
        dts = []
        for _ in range(rnd.choice([1, 1, 2])):
            nm = "m%d" % rnd.randrange(100) if rnd.random() < 0.9 else rnd.choice(TYPEDEFS)  # members live in their own name space
            if rnd.random() < 0.25 and sp["ts"].k in ("basic", "tdname", "enum") and not sp["align"]:
                bits = rand_cexpr(rnd, 1)
                if rnd.random() < 0.3:
                    dts.append(dtor(None, bits=bits))
                else:
                    dts.append(dtor(nm, bits=bits))
            else:
                dts.append(dtor(nm, rand_derivs(rnd, rnd.choice([0, 0, 1, 2]))))
        out.append(M("decl", specs=sp, dtors=dts))
    if all(m.k in ("pragma", "semi", "sassert") for m in out):
        out.append(M("decl", specs=basic_specs(["int"]), dtors=[dtor("m_last")]))
    return out


def rand_derivs(rnd, n, param=False):
    alpha = deriv_alphabet()
    if not param:
        alpha = alpha[:8]
    return [rnd.choice(alpha)() for _ in range(n)]


def rand_init(rnd, depth):
    if rnd.random() < 0.4:
        return rand_ilist(rnd, depth)
    return rand_expr(rnd, depth, allow_comma=True)


def rand_decl(rnd, depth=2, ctx="file"):
    """Random declaration for context ctx in {'file','block','typedef','for'}."""
    typedef = ctx == "typedef"
    sp = rand_specs(rnd, depth, allow_storage=not typedef,
                    storage_choices=(["static", "extern", "_Thread_local"] if ctx == "file" else None),
                    allow_funcspec=False, allow_align=(ctx in ("file", "block")))
    if typedef:
        sp.f["storage"] = ["typedef"]
        sp.f["align"] = []
        sp.f["order"] = [("storage", 0)] + [o for o in sp["order"] if o[0] not in ("align", "storage")]
    dts = []
    n = rnd.choice([1, 1, 1, 2, 3])
    if ctx == "file" and rnd.random() < 0.08:
        # a prototype whose parameters are NAMED like visible typedef names (prototype scope ends with the declarator:
        # whatever follows - struct bodies, initializer braces, blocks - still sees the typedef names)
        t0, t1 = rnd.sample(TYPEDEFS, 2)
        params = [M("param", specs=basic_specs(["int"]), dtor=dtor(t0)),
                  M("param", specs=specs_of(M("tdname", name=t1)), dtor=dtor(t1, [("ptr", [])]))]
        fn = ("fn", {"params": params, "variadic": False, "kr": None})
        return M("decl", specs=basic_specs(["void"]), dtors=[dtor("pf%d" % rnd.randrange(100000), [fn])])
    if sp["ts"].k in ("su", "enum") and rnd.random() < 0.2 and not typedef:
        return M("decl", specs=sp, dtors=[])
    for i in range(n):
        nm = ("v%d" if not typedef else "TD%d") % rnd.randrange(100000)
        dv = rand_derivs(rnd, rnd.choice([0, 0, 1, 1, 2, 3]))
        init = None
        if not typedef and rnd.random() < 0.35:
            init = rand_init(rnd, depth)
        dts.append(dtor(nm, dv, init=init, extra_parens=rnd.random() < 0.05))
    return M("decl", specs=sp, dtors=dts)


# ------------------------------------------------------------------ statements

# pragma texts: the directive's own keywords and punctuation inside the text, quotes, brackets, a trailing backslash
PRAGMA_TEXTS = ["omp parallel for", "once", "pack(push, 1)", "", "weird $ @ ` text \\ here", "unroll(4)", "STDC FP_CONTRACT ON",
                "GCC diagnostic ignored \"-Wunknown-pragmas\"", "message(\"unknown pragma ignored\")", "pragma", "pragma pragma x",
                "line 5", "# pragma x", "define X ( { [", "omp critical } ) ]", "'q", "\"unterminated", "/* c */ // d", "tail \\"]


class StmtGen:
    def __init__(self, rnd, expr_depth=2, pragmas=True, decls=True):
        self.rnd = rnd
        self.expr_depth = expr_depth
        self.pragmas = pragmas
        self.decls = decls
        self.nlabel = 0

    def e(self):
        return rand_expr(self.rnd, self.rnd.choice([0, 1, self.expr_depth]))

    def stmt(self, d, in_switch=False, in_loop=False):
        rnd = self.rnd
        kinds = ["expr", "expr", "empty", "block", "if", "ifelse", "while", "do", "for", "switch", "label", "goto", "return"]
        if in_switch:
            kinds += ["case", "default", "case", "break"]
        if in_loop:
            kinds += ["break", "continue"]
        if d <= 0:
            kinds = ["expr", "empty", "goto", "return"] + (["break"] if in_switch or in_loop else [])
        k = rnd.choice(kinds)
        if k == "expr":
            return M("expr", e=self.e())
        if k == "empty":
            return M("empty")
        if k == "block":
            return M("block", items=self.items(d - 1, in_switch, in_loop))
        if k == "if":
            return M("if", c=self.e(), then=self.sub(d - 1, in_switch, in_loop), els=None)
        if k == "ifelse":
            th = self.sub(d - 1, in_switch, in_loop)
            if ends_open_if(th):
                th = M("block", items=[th])
            return M("if", c=self.e(), then=th, els=self.sub(d - 1, in_switch, in_loop))
        if k == "while":
            return M("while", c=self.e(), body=self.sub(d - 1, in_switch, True))
        if k == "do":
            return M("do", body=self.sub(d - 1, in_switch, True), c=self.e())
        if k == "for":
            r = rnd.random()
            init = None
            if r < 0.3:
                init = self.e()
            elif r < 0.6 and self.decls:
                init = M("decl", specs=basic_specs([rnd.choice(["int", "long"])]),
                         dtors=[dtor("i%d" % rnd.randrange(1000), rand_derivs(rnd, rnd.choice([0, 0, 1])),
                                     init=rand_expr(rnd, 1, allow_comma=False) if rnd.random() < 0.7 else None)
                                for _ in range(rnd.choice([1, 1, 2]))])
            return M("for", init=init, c=self.e() if rnd.random() < 0.6 else None,
                     next=self.e() if rnd.random() < 0.6 else None, body=self.sub(d - 1, in_switch, True))
        if k == "switch":
            body = self.sub(d - 1, True, in_loop) if rnd.random() < 0.3 else M("block", items=self.items(d - 1, True, in_loop))
            return M("switch", c=self.e(), body=body)
        if k == "label":
            self.nlabel += 1
            return M("label", name="L%d" % self.nlabel, stmt=self.sub(d - 1, in_switch, in_loop))
        if k == "goto":
            return M("goto", name="L%d" % rnd.randrange(1, 5))
        if k == "return":
            return M("return", e=self.e() if rnd.random() < 0.6 else None)
        if k == "case":
            return M("case", e=rand_cexpr(rnd, rnd.choice([0, 0, 1])), stmt=self.sub(d - 1, in_switch, in_loop))
        if k == "default":
            return M("default", stmt=self.sub(d - 1, in_switch, in_loop))
        return M(k)

    def sub(self, d, in_switch, in_loop):
        s = self.stmt(d, in_switch, in_loop)
        if self.pragmas and self.rnd.random() < 0.12:
            ps = [self.pragma() for _ in range(self.rnd.choice([1, 1, 2]))]
            return M("prag", pragmas=ps, stmt=s)
        return s

    def pragma(self):
        rnd = self.rnd
        if rnd.random() < 0.25:
            return M("pragmaop", lit='"%s"' % rnd.choice(["omp barrier", "GCC ivdep", "x y(z)"]))
        return M("pragma", text=rnd.choice(PRAGMA_TEXTS))

    def items(self, d, in_switch, in_loop):
        rnd = self.rnd
        out = []
        for _ in range(rnd.choice([0, 1, 2, 3, 4])):
            r = rnd.random()
            if r < 0.14 and self.decls:
                out.append(rand_decl(rnd, 1, "block"))
            elif r < 0.17 and self.decls:
                out.append(rand_decl(rnd, 1, "typedef"))
            elif r < 0.25 and self.pragmas:
                out.append(self.pragma())
            elif r < 0.29:
                out.append(M("sassert", cond=rand_cexpr(rnd, 1), msg=['"msg"'] if rnd.random() < 0.7 else None))
            else:
                out.append(self.stmt(d, in_switch, in_loop))
        return out


def ends_open_if(s):
    k = s.k
    if k == "prag":
        return ends_open_if(s["stmt"])
    if k == "if":
        return s["els"] is None or ends_open_if(s["els"])
    if k in ("while", "for"):
        return ends_open_if(s["body"])
    if k in ("label", "case", "default"):
        return ends_open_if(s["stmt"])
    if k == "switch":
        return ends_open_if(s["body"])
    return False


# ------------------------------------------------------------------ whole programs

def prelude():
    """typedef names, tags and objects the random programs refer to."""
    items = [
        M("decl", specs=basic_specs(["int"], storage=["typedef"]), dtors=[dtor("T0")]),
        M("decl", specs=specs_of(M("su", kw="struct", tag="S0", members=[
            M("decl", specs=basic_specs(["int"]), dtors=[dtor("m0"), dtor("m1")])]), storage=["typedef"]),
          dtors=[dtor("T1"), dtor("T2", [("ptr", [])])]),
        M("decl", specs=basic_specs(["unsigned", "char"], storage=["typedef"]), dtors=[dtor("T3", [("arr", {"size": int_const("4")})])]),
        M("decl", specs=specs_of(M("enum", tag="EN0", items=[M("enumerator", name="E0", value=None)])), dtors=[]),
    ]
    return items


def rand_funcdef(rnd, depth=3, name=None, kr=False):
    sg = StmtGen(rnd)
    name = name or "fn%d" % rnd.randrange(100000)
    sp = rand_specs(rnd, 0, allow_storage=True, storage_choices=["static", "extern"], allow_funcspec=True, allow_defs=False)
    if sp["ts"].k == "atomic":
        sp = basic_specs(["int"])
    krdecls = None
    if kr:
        names = ["k%d" % i for i in range(rnd.choice([0, 1, 2, 3]))]
        fn = ("fn", {"params": None, "variadic": False, "kr": names})
        krdecls = [M("decl", specs=basic_specs([rnd.choice(["int", "char", "double"])]),
                     dtors=[dtor(n, rand_derivs(rnd, rnd.choice([0, 0, 1])))]) for n in names]
        if len(names) >= 2 and rnd.random() < 0.5:
            # two names in one declaration
            krdecls = [M("decl", specs=basic_specs(["int"]), dtors=[dtor(names[0]), dtor(names[1], [("ptr", [])])])] + krdecls[2:]
        if rnd.random() < 0.6:
            # the declaration list need not follow the order of the identifier list (6.9.1p6); FuncDef.param_decls is in source order
            rnd.shuffle(krdecls)
            for kd in krdecls:
                rnd.shuffle(kd["dtors"])
    else:
        params = []
        r = rnd.random()
        if r < 0.25:
            params = [M("param", specs=basic_specs(["void"]), dtor=dtor(None))]
        else:
            for i in range(rnd.choice([1, 2, 3])):
                psp = rand_specs(rnd, 0, allow_storage=False, allow_defs=False)
                if rnd.random() < 0.1:
                    psp.f["storage"] = ["register"]
                    psp.f["order"] = [("storage", 0)] + psp["order"]
                params.append(M("param", specs=psp, dtor=dtor("p%d" % i, rand_derivs(rnd, rnd.choice([0, 0, 1, 2]), param=True))))
        fn = ("fn", {"params": params, "variadic": (rnd.random() < 0.15 and params[0]["dtor"]["name"] is not None), "kr": None})
    outer = []
    r2 = rnd.random()
    if r2 < 0.15:
        outer = [("ptr", [])]
    elif r2 < 0.22:
        # function returning a pointer to a function / to an array
        outer = [("ptr", []), rnd.choice(deriv_alphabet()[4:7])()]
    d = dtor(name, [fn] + outer)
    body = M("block", items=sg.items(depth, False, False))
    return M("funcdef", specs=sp, dtor=d, krdecls=krdecls, body=body)


def rand_tu(rnd, nitems=4, depth=3):
    items = prelude()
    for _ in range(nitems):
        r = rnd.random()
        if r < 0.35:
            items.append(rand_decl(rnd, 2, "file"))
        elif r < 0.45:
            items.append(rand_decl(rnd, 2, "typedef"))
        elif r < 0.85:
            items.append(rand_funcdef(rnd, depth, kr=rnd.random() < 0.12))
        elif r < 0.90:
            items.append(M("pragma", text=rnd.choice(["once", "pack(1)", ""])))
        elif r < 0.94:
            items.append(M("sassert", cond=rand_cexpr(rnd, 1), msg=['"file"', '"scope"'] if rnd.random() < 0.7 else None))
        elif r < 0.97:
            items.append(M("semi"))
        else:
            items.append(M("pragmaop", lit='"once"'))
    return tu(items)
