"""Monitors that watch the real pycparser code while the harness drives it."""
import os
import re
import sys
import traceback

from . import sut


class StepBudgetExceeded(BaseException):
    """Raised from the step monitor when one API call does too much work."""


class StepMonitor:
    """Counts Python function entries (sys.monitoring PY_START) inside
    pycparser's own code objects.  Deterministic: the same input gives the same
    count.  With a budget set, raises StepBudgetExceeded out of the API call."""

    def __init__(self, tool_id=None, work=False):
        # work=True (C16): a wider measure of work - function entries in ANY Python code run on behalf of the call
        # (copy.deepcopy, re, dataclass code; the harness itself excluded) plus one step per backward jump, i.e. per
        # loop iteration, inside pycparser: loops that call no Python function are otherwise invisible
        self.work = work
        self.attrib = None       # when not None: loop iterations are also counted per code object (known-finding attribution)
        self.attributed = 0
        self.attributed_by = {}
        self.harness = os.path.dirname(os.path.abspath(__file__))
        self.mon = sys.monitoring
        self.tool = self.mon.PROFILER_ID if tool_id is None else tool_id
        self.n = 0
        self.budget = None
        self.active = False
        self.pkg = sut.PKG_DIR
        self.funcs = None  # when a dict: function name -> hits (coverage)

    def _cb(self, code, offset):
        if code.co_filename.startswith(self.pkg):
            self.n += 1
            if self.funcs is not None:
                k = code.co_qualname
                self.funcs[k] = self.funcs.get(k, 0) + 1
            if self.budget is not None and self.n > self.budget:
                self.budget = None  # fire once
                raise StepBudgetExceeded(self.n)
            return None
        if self.work and not code.co_filename.startswith(self.harness):
            self.n += 1
            if self.budget is not None and self.n > self.budget:
                self.budget = None
                raise StepBudgetExceeded(self.n)
            return None
        return self.mon.DISABLE

    def _jump(self, code, offset, dest):
        if dest < offset and code.co_filename.startswith(self.pkg):
            self.n += 1
            if self.attrib is not None:
                # loop iterations per code object (known-finding attribution looks at the single hottest loop)
                self.attributed_by[code] = self.attributed_by.get(code, 0) + 1
            if self.budget is not None and self.n > self.budget:
                self.budget = None
                raise StepBudgetExceeded(self.n)
            return None
        if not code.co_filename.startswith(self.pkg):
            return self.mon.DISABLE
        return None

    def start(self, coverage=False):
        if self.active:
            return
        if coverage:
            self.funcs = {}
        self.mon.use_tool_id(self.tool, "vf-steps")
        self.mon.register_callback(self.tool, self.mon.events.PY_START, self._cb)
        ev = self.mon.events.PY_START
        if self.work:
            self.mon.register_callback(self.tool, self.mon.events.JUMP, self._jump)
            ev |= self.mon.events.JUMP
            self.mon.restart_events()
        self.mon.set_events(self.tool, ev)
        self.active = True

    def stop(self):
        if not self.active:
            return
        self.mon.set_events(self.tool, 0)
        self.mon.register_callback(self.tool, self.mon.events.PY_START, None)
        if self.work:
            self.mon.register_callback(self.tool, self.mon.events.JUMP, None)
        self.mon.free_tool_id(self.tool)
        self.active = False

    def begin(self, budget=None):
        self.n = 0
        self.attributed = 0
        self.attributed_by = {}
        self.budget = budget

    def end(self):
        self.budget = None
        return self.n


_LM = re.compile(r'^[ \t]*#[ \t]*(?:line[ \t]+)?\d+[ \t]+"((?:[^"\\\n]|\\.)*)"', re.M)


def established_filenames(text, filename):
    """File names a location may legitimately carry: the one passed to parse()
    and any name set by a linemarker / #line of the input."""
    names = {filename}
    for m in _LM.finditer(text):
        names.add(m.group(1))
    return names


def location_prefix_ok(msg, names):
    """Does a ParseError message start with '<file>:<line>:<col>: ' or '<file>: '
    (also '<file>:<line>: ') for one of the admissible file names?"""
    for f in names:
        if not msg.startswith(f):
            continue
        rest = msg[len(f):]
        if re.match(r"(:\d+){0,2}: ", rest):
            return True
    return False


def parse_location(msg, names):
    """(file, line, col) named by a ParseError message, or None."""
    best = None
    for f in names:
        if msg.startswith(f):
            m = re.match(r":(\d+):(\d+): ", msg[len(f):])
            if m and (best is None or len(f) > len(best[0])):
                best = (f, int(m.group(1)), int(m.group(2)))
    return best


def outcome(parse_fn, text, filename, steps=None, budget=None):
    """Run one parse under the exception-discipline monitor.

    Returns a tuple whose first element is one of
      'ok'     (ast)            FileAST returned
      'perr'   (message)        ParseError raised
      'rec'                     RecursionError (tolerated by C06's statement)
      'budget' (steps)          step budget exceeded (bounded-work monitor)
      'exc'    (type, msg, where)  any other exception: a C06 event
    """
    S = sut.load()
    if steps is not None:
        steps.begin(budget)
    try:
        ast = parse_fn(text, filename)
        return ("ok", ast)
    except S.ParseError as e:
        return ("perr", str(e))
    except RecursionError:
        return ("rec",)
    except StepBudgetExceeded as e:
        return ("budget", int(str(e)) if str(e).isdigit() else -1)
    except Exception as e:  # noqa: BLE001 - this is the monitor
        tb = traceback.extract_tb(e.__traceback__)
        where = ""
        for fr in reversed(tb):
            if fr.filename.startswith(sut.PKG_DIR):
                where = f"{fr.filename[len(sut.REPO)+1:]}:{fr.name}"
                break
        return ("exc", type(e).__name__, str(e)[:200], where)
    finally:
        if steps is not None:
            steps.end()


def check_ast_structure(ast):
    """AST structure monitor (quiescent point: after parse returned).  Returns a
    list of problems: non-Node children, cycles, unexpected attribute types."""
    S = sut.load()
    Node = S.Node
    problems = []
    seen = set()
    stack = [(ast, "root")]
    while stack:
        n, path = stack.pop()
        if id(n) in seen:
            problems.append(f"node reachable twice / cycle at {path}")
            continue
        seen.add(id(n))
        for s in type(n).__slots__:
            if s in ("coord", "__weakref__"):
                continue
            v = getattr(n, s, None)
            if isinstance(v, Node):
                stack.append((v, f"{path}.{s}"))
            elif isinstance(v, list):
                for i, x in enumerate(v):
                    if isinstance(x, Node):
                        stack.append((x, f"{path}.{s}[{i}]"))
                    elif not isinstance(x, str):
                        problems.append(f"{path}.{s}[{i}] is {type(x).__name__}")
            elif not (v is None or isinstance(v, (str, int))):
                problems.append(f"{path}.{s} is {type(v).__name__}")
    return problems
