"""Loading the system under test (pycparser from $VERIF_REPO, default /repo).

Every worker process imports pycparser fresh from the working tree, so checks
always run against the current sources (pure Python: nothing to build).
"""
import os
import subprocess
import sys

REPO = os.path.realpath(os.environ.get("VERIF_REPO", "/repo"))
PKG_DIR = os.path.join(REPO, "pycparser") + os.sep
FAKE_LIBC = os.path.join(REPO, "utils", "fake_libc_include")


class SUT:
    pass


_sut = None


def load():
    """Import pycparser from REPO and return a namespace with its modules."""
    global _sut
    if _sut is not None:
        return _sut
    for m in [m for m in sys.modules if m == "pycparser" or m.startswith("pycparser.")]:
        del sys.modules[m]
    if sys.path[0] != REPO:
        sys.path.insert(0, REPO)
    import pycparser
    from pycparser import c_ast, c_generator, c_lexer, c_parser

    here = os.path.realpath(pycparser.__file__)
    if not here.startswith(REPO + os.sep):
        raise RuntimeError(f"pycparser imported from {here}, expected under {REPO}")
    s = SUT()
    s.pycparser = pycparser
    s.c_ast = c_ast
    s.c_generator = c_generator
    s.c_lexer = c_lexer
    s.c_parser = c_parser
    s.CParser = c_parser.CParser
    s.CLexer = c_lexer.CLexer
    s.CGenerator = c_generator.CGenerator
    s.ParseError = c_parser.ParseError
    s.Node = c_ast.Node
    s.path = here
    _sut = s
    return s


def describe():
    """Commit and dirty flag of the tree under test (for the evidence file)."""
    def git(*a):
        try:
            return subprocess.run(["git", "-C", REPO, *a], capture_output=True,
                                  text=True, timeout=20).stdout.strip()
        except Exception:
            return ""
    return {"repo": REPO, "head": git("rev-parse", "HEAD"),
            "dirty": bool(git("status", "--porcelain", "--untracked-files=no"))}
