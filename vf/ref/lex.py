"""Reference lexical model of C99 6.4 (+ the extensions pycparser documents),
hand-written, independent of pycparser's regular expressions.

Token kinds use pycparser's documented token-type names only as *labels* for the
classes C assigns (keyword, identifier, each literal kind, each punctuator).
"""
from collections import namedtuple

Tok = namedtuple("Tok", "kind value start line col file")

KEYWORDS = [
    "auto", "break", "case", "char", "const", "continue", "default", "do", "double",
    "else", "enum", "extern", "float", "for", "goto", "if", "inline", "int", "long",
    "register", "offsetof", "restrict", "return", "short", "signed", "sizeof", "static",
    "struct", "switch", "typedef", "union", "unsigned", "void", "volatile", "while",
    "__int128", "_Bool", "_Complex", "_Noreturn", "_Thread_local", "_Static_assert",
    "_Atomic", "_Alignof", "_Alignas", "_Pragma",
]
KEYWORD_KIND = {k: k.upper() for k in KEYWORDS}

PUNCT = {
    "...": "ELLIPSIS", "<<=": "LSHIFTEQUAL", ">>=": "RSHIFTEQUAL", "++": "PLUSPLUS",
    "--": "MINUSMINUS", "->": "ARROW", "&&": "LAND", "||": "LOR", "<<": "LSHIFT",
    ">>": "RSHIFT", "<=": "LE", ">=": "GE", "==": "EQ", "!=": "NE", "*=": "TIMESEQUAL",
    "/=": "DIVEQUAL", "%=": "MODEQUAL", "+=": "PLUSEQUAL", "-=": "MINUSEQUAL",
    "&=": "ANDEQUAL", "|=": "OREQUAL", "^=": "XOREQUAL", "=": "EQUALS", "+": "PLUS",
    "-": "MINUS", "*": "TIMES", "/": "DIVIDE", "%": "MOD", "|": "OR", "&": "AND",
    "~": "NOT", "^": "XOR", "!": "LNOT", "<": "LT", ">": "GT", "?": "CONDOP",
    "(": "LPAREN", ")": "RPAREN", "[": "LBRACKET", "]": "RBRACKET", "{": "LBRACE",
    "}": "RBRACE", ",": "COMMA", ".": "PERIOD", ";": "SEMI", ":": "COLON",
}
# C punctuators pycparser does not support; they only matter for "may these two
# tokens be written without a separator" (the pair would be a different C token)
UNSUPPORTED_PUNCT = ["<:", ":>", "<%", "%>", "%:", "%:%:", "##", "/*", "//"]
_ALLP = sorted(list(PUNCT) + UNSUPPORTED_PUNCT, key=len, reverse=True)
_MAXP = max(len(p) for p in _ALLP)

HEX = "0123456789abcdefABCDEF"
DIG = "0123456789"
IDSTART = "abcdefghijklmnopqrstuvwxyzABCDEFGHIJKLMNOPQRSTUVWXYZ_$"
IDCHAR = IDSTART + DIG
_INT_SUFFIXES = {"", "u", "U", "l", "L", "ll", "LL", "ul", "uL", "Ul", "UL", "ull", "uLL",
                 "Ull", "ULL", "lu", "lU", "Lu", "LU", "llu", "llU", "LLu", "LLU"}
SIMPLE_ESC = "._~!=&^-\\?'\""
STR_KIND = {"": "STRING_LITERAL", "L": "WSTRING_LITERAL", "u8": "U8STRING_LITERAL",
            "u": "U16STRING_LITERAL", "U": "U32STRING_LITERAL"}
CHR_KIND = {"": "CHAR_CONST", "L": "WCHAR_CONST", "u8": "U8CHAR_CONST",
            "u": "U16CHAR_CONST", "U": "U32CHAR_CONST"}
LITERAL_KINDS = (set(STR_KIND.values()) | set(CHR_KIND.values()) |
                 {"INT_CONST_DEC", "INT_CONST_OCT", "INT_CONST_HEX", "INT_CONST_BIN",
                  "INT_CONST_CHAR", "FLOAT_CONST", "HEX_FLOAT_CONST"})


def int_suffix_ok(s):
    return s in _INT_SUFFIXES


def _digits(s, i, alphabet):
    j = i
    while j < len(s) and s[j] in alphabet:
        j += 1
    return j


def classify_number(s):
    """Kind of the numeric constant spelled exactly by s, or None / 'BADOCT'."""
    if not s:
        return None
    if s[:2] in ("0x", "0X"):
        j = _digits(s, 2, HEX)
        if j > 2 and int_suffix_ok(s[j:]):
            return "INT_CONST_HEX"
        # hex float: 0x (h+ | h*.h+ | h+.) p [+-]? d+ [fFlL]?
        k = j
        had_int = j > 2
        had_frac = False
        if k < len(s) and s[k] == ".":
            k2 = _digits(s, k + 1, HEX)
            had_frac = k2 > k + 1
            k = k2
            if not had_int and not had_frac:
                return None
        elif not had_int:
            return None
        if k < len(s) and s[k] in "pP":
            k += 1
            if k < len(s) and s[k] in "+-":
                k += 1
            k2 = _digits(s, k, DIG)
            if k2 == k:
                return None
            k = k2
            if k < len(s) and s[k] in "fFlL":
                k += 1
            return "HEX_FLOAT_CONST" if k == len(s) else None
        return None
    if s[:2] in ("0b", "0B"):
        j = _digits(s, 2, "01")
        if j > 2 and int_suffix_ok(s[j:]):
            return "INT_CONST_BIN"
        return None
    j = _digits(s, 0, DIG)
    if j > 0 and int_suffix_ok(s[j:]):
        d = s[:j]
        if d[0] != "0":
            return "INT_CONST_DEC"
        if all(c in "01234567" for c in d):
            return "INT_CONST_OCT"
        return "BADOCT"
    # decimal floating
    k = j
    had_int = j > 0
    had_dot = False
    had_frac = False
    if k < len(s) and s[k] == ".":
        had_dot = True
        k2 = _digits(s, k + 1, DIG)
        had_frac = k2 > k + 1
        k = k2
    if not had_int and not had_frac:
        return None
    had_exp = False
    if k < len(s) and s[k] in "eE":
        k += 1
        if k < len(s) and s[k] in "+-":
            k += 1
        k2 = _digits(s, k, DIG)
        if k2 == k:
            return None
        k = k2
        had_exp = True
    if not had_dot and not had_exp:
        return None
    if k < len(s) and s[k] in "fFlL":
        k += 1
    return "FLOAT_CONST" if k == len(s) else None


def scan_quoted(s, i):
    """s[i] is a quote character.  Returns (end, nchars, status) where status is
    'ok', 'unterminated' or 'badescape'; end is one past the closing quote (or
    the end of line/input when unterminated)."""
    q = s[i]
    j = i + 1
    n = 0
    bad = False
    while j < len(s):
        ch = s[j]
        if ch == q:
            return j + 1, n, ("badescape" if bad else "ok")
        if ch == "\n":
            return j, n, "unterminated"
        if ch == "\\":
            if j + 1 >= len(s) or s[j + 1] == "\n":
                return (j + 1, n, "unterminated")
            e = s[j + 1]
            if e == "x":
                k = _digits(s, j + 2, HEX)
                j = k if k > j + 2 else j + 2
            elif e in DIG:
                j = _digits(s, j + 1, DIG)
            elif e.isascii() and e.isalpha() or e in SIMPLE_ESC:
                j += 2
            else:
                bad = True
                j += 2
        else:
            j += 1
        n += 1
    return j, n, "unterminated"


def classify_literal(s):
    """Kind of the literal spelled exactly by the whole string s (None if s is
    not one well-formed literal).  PREFIXED_MULTICHAR: L'ab' etc. (valid C,
    implementation-defined value)."""
    if not s:
        return None
    c = s[0]
    if c in DIG or (c == "." and len(s) > 1 and s[1] in DIG):
        k = classify_number(s)
        return None if k == "BADOCT" else k
    for pre in ("u8", "u", "U", "L", ""):
        if s.startswith(pre) and len(s) > len(pre) and s[len(pre)] in "'\"":
            i = len(pre)
            end, n, st = scan_quoted(s, i)
            if st != "ok" or end != len(s):
                return None
            if s[i] == '"':
                return STR_KIND[pre]
            if n == 1:
                return CHR_KIND[pre]
            if 2 <= n <= 4:
                return "INT_CONST_CHAR" if pre == "" else "PREFIXED_MULTICHAR"
            return None
    return None


def pp_number_end(s, i):
    """End of the C preprocessing number starting at s[i] (6.4.8)."""
    j = i
    if s[j] == ".":
        j += 1
    j += 1
    while j < len(s):
        ch = s[j]
        if ch in "eEpP" and j + 1 < len(s) and s[j + 1] in "+-":
            j += 2
        elif ch in IDCHAR or ch == ".":
            j += 1
        else:
            break
    return j


def next_token(s, i):
    """Lex one C token at s[i] (not whitespace).  Returns (kind, end).
    kind is a token kind, or 'ERR:<why>' when no valid token starts here."""
    c = s[i]
    # literals with prefixes / identifiers
    if c in IDSTART:
        for pre in ("u8", "u", "U", "L"):
            if s.startswith(pre, i) and i + len(pre) < len(s) and s[i + len(pre)] in "'\"":
                q = i + len(pre)
                end, n, st = scan_quoted(s, q)
                if st != "ok":
                    return "ERR:" + st, max(end, i + 1)
                if s[q] == '"':
                    return STR_KIND[pre], end
                if n == 1:
                    return CHR_KIND[pre], end
                if 2 <= n <= 4:
                    return "PREFIXED_MULTICHAR", end
                return "ERR:badchar", end
        j = _digits(s, i, IDCHAR)
        w = s[i:j]
        return KEYWORD_KIND.get(w, "ID"), j
    if c in DIG or (c == "." and i + 1 < len(s) and s[i + 1] in DIG):
        j = pp_number_end(s, i)
        k = classify_number(s[i:j])
        if k is None or k == "BADOCT":
            return "ERR:badnumber", j
        return k, j
    if c == '"':
        end, n, st = scan_quoted(s, i)
        if st != "ok":
            return "ERR:" + st, max(end, i + 1)
        return "STRING_LITERAL", end
    if c == "'":
        end, n, st = scan_quoted(s, i)
        if st != "ok":
            return "ERR:" + st, max(end, i + 1)
        if n == 1:
            return "CHAR_CONST", end
        if 2 <= n <= 4:
            return "INT_CONST_CHAR", end
        return "ERR:badchar", end
    for L in range(min(_MAXP, len(s) - i), 0, -1):
        p = s[i:i + L]
        if p in PUNCT:
            return PUNCT[p], i + L
        if p in UNSUPPORTED_PUNCT:
            return "ERR:unsupported " + p, i + L
    if c == "#":
        return "PPHASH", i + 1
    return "ERR:illegal", i + 1


def adjacent_ok(a, b):
    """May token spellings a and b be written with nothing between them, i.e.
    does C's longest-match rule split a+b back into exactly a, b?"""
    s = a + b
    k1, e1 = next_token(s, 0)
    if k1.startswith("ERR") or e1 != len(a):
        return False
    if s[e1] in " \t\n":
        return False
    k2, e2 = next_token(s, e1)
    return (not k2.startswith("ERR")) and e2 == len(s)


def _directive(line):
    """Classify a line whose first non-blank char is '#'.  Returns
    ('line', lineno, filename|None) | ('pragma', text, offset_of_text,
    offset_of_word) | ('other',) | ('badline',)."""
    i = line.index("#") + 1
    j = i
    while j < len(line) and line[j] in " \t":
        j += 1
    rest = line[j:]
    if rest.startswith("pragma") and (len(rest) == 6 or not (rest[6] in IDCHAR)):
        k = j + 6
        while k < len(line) and line[k] in " \t":
            k += 1
        return ("pragma", line[k:], k, j)
    if rest.startswith("line") and (len(rest) == 4 or not (rest[4] in IDCHAR)):
        j += 4
        while j < len(line) and line[j] in " \t":
            j += 1
        rest = line[j:]
    elif not (rest and rest[0] in DIG):
        return ("other",)
    k = _digits(line, j, DIG)
    if k == j:
        return ("badline",)
    num = int(line[j:k])
    while k < len(line) and line[k] in " \t":
        k += 1
    if k >= len(line):
        return ("line", num, None)
    if line[k] != '"':
        return ("badline",)
    e = line.find('"', k + 1)
    if e < 0:
        return ("badline",)
    fname = line[k + 1:e]
    tail = line[e + 1:].split()
    if any(not t.isdigit() for t in tail):
        return ("badline",)
    return ("line", num, fname)


def scan(text, filename="", is_type=None):
    """Reference token stream of a preprocessed translation unit.

    Returns (tokens, errors): tokens are Tok(kind, value, start, line, col,
    file) with presumed line/file per #line / linemarkers; errors are
    (offset, why).  Directives are recognised at the start of a line only (as
    cpp emits them)."""
    toks = []
    errs = []
    i = 0
    n = len(text)
    line = 1
    line_start = 0
    fname = filename
    at_bol = True
    while i < n:
        c = text[i]
        if c in " \t\f\v":     # C99 6.4p3 white space (directive lines allow only space and tab: see _directive)
            i += 1
            continue
        if c == "\n":
            i += 1
            line += 1
            line_start = i
            at_bol = True
            continue
        if c == "#" and at_bol:
            e = text.find("\n", i)
            if e < 0:
                e = n
            d = _directive(text[line_start:e])
            if d[0] == "line":
                line = d[1] - 1  # the newline that follows brings it to d[1]
                if d[2] is not None:
                    fname = d[2]
                if e >= n:
                    line += 1
                i = e
                continue
            if d[0] == "pragma":
                toks.append(Tok("PPPRAGMA", "pragma", line_start + d[3], line, d[3] + 1, fname))
                if d[1] != "":
                    toks.append(Tok("PPPRAGMASTR", d[1], line_start + d[2], line, d[2] + 1, fname))
                i = e
                continue
            if d[0] == "badline":
                errs.append((i, "bad #line"))
                i = e
                continue
        at_bol = False
        kind, end = next_token(text, i)
        if kind.startswith("ERR"):
            errs.append((i, kind[4:]))
        else:
            val = text[i:end]
            if kind == "ID" and is_type is not None and is_type(val):
                kind = "TYPEID"
            toks.append(Tok(kind, val, i, line, i - line_start + 1, fname))
        i = end
    return toks, errs
